//@@ group: codec
//@@ target: slice-codec/src/encoding.rs
//
// C10, strings / sequences / dictionaries: encoder output equals "size ++ element encodings" built by the
// reference here, and decoding it gives back the value and consumes exactly the bytes written.
use super::*;
use crate::buffer::slice::{SliceInputSource, SliceOutputTarget};
use crate::buffer::{InputSource, OutputTarget};
use crate::decoder::Decoder;
use alloc::collections::BTreeMap;
use alloc::string::String;
use alloc::vec::Vec;

macro_rules! check {
    ($c:expr, $m:literal) => {
        kani::assert($c, $m)
    };
}

/// hand-written UTF-8 validity (Unicode table 3-7: 1- to 4-byte well-formed sequences), independent of core::str
fn utf8_ok(b: &[u8], n: usize) -> bool {
    let mut i = 0;
    while i < n {
        let c = b[i];
        if c < 0x80 {
            i += 1;
        } else if c >= 0xC2 && c <= 0xDF {
            if i + 1 < n && b[i + 1] >= 0x80 && b[i + 1] <= 0xBF {
                i += 2;
            } else {
                return false;
            }
        } else if c >= 0xE0 && c <= 0xEF {
            let lo = if c == 0xE0 { 0xA0 } else { 0x80 };
            let hi = if c == 0xED { 0x9F } else { 0xBF };
            if i + 2 < n && b[i + 1] >= lo && b[i + 1] <= hi && b[i + 2] >= 0x80 && b[i + 2] <= 0xBF {
                i += 3;
            } else {
                return false;
            }
        } else if c >= 0xF0 && c <= 0xF4 {
            let lo = if c == 0xF0 { 0x90 } else { 0x80 };
            let hi = if c == 0xF4 { 0x8F } else { 0xBF };
            if i + 3 < n && b[i + 1] >= lo && b[i + 1] <= hi && b[i + 2] >= 0x80 && b[i + 2] <= 0xBF && b[i + 3] >= 0x80 && b[i + 3] <= 0xBF {
                i += 4;
            } else {
                return false;
            }
        } else {
            return false; // 0x80..0xC1 and 0xF5.. are never lead bytes
        }
    }
    true
}

fn last_or(b: &[u8], dflt: u8) -> u8 {
    if b.len() == 0 {
        dflt
    } else if b.len() == 1 {
        b[0] | 0x80 // 1-byte strings are ASCII: witness only that the end is reached
    } else {
        b[b.len() - 1]
    }
}

macro_rules! str_roundtrip {
    ($n:expr, $via_string:expr) => {{
        let bytes: [u8; $n] = kani::any();
        kani::assume(utf8_ok(&bytes, $n));
        let s: &str = unsafe { core::str::from_utf8_unchecked(&bytes) };
        let guard: u8 = kani::any();
        let mut buf = [guard; $n + 2];
        let written;
        {
            let mut enc: Encoder<SliceOutputTarget> = Encoder::from(&mut buf[..]);
            let r = if $via_string {
                let owned = String::from(s);
                let r = enc.encode(&owned);
                core::mem::forget(owned);
                r
            } else {
                enc.encode(s)
            };
            check!(r.is_ok(), "encoding a short string into a large enough buffer succeeds");
            core::mem::forget(r);
            written = ($n + 2) - enc.remaining();
        }
        check!(written == $n + 1, "a string of n < 64 bytes occupies 1 + n bytes");
        check!(buf[0] == (($n as u8) << 2), "the size prefix is n << 2 on one byte");
        let mut i = 0;
        while i < $n {
            check!(buf[1 + i] == bytes[i], "the UTF-8 bytes follow the size verbatim");
            i += 1;
        }
        check!(buf[$n + 1] == guard, "the byte behind the encoding is untouched");
        let mut dec: Decoder<SliceInputSource> = Decoder::from(&buf[..$n + 1]);
        match dec.decode::<String>() {
            Ok(d) => {
                check!(d.len() == $n, "decoded string has the original length");
                let db = d.as_bytes();
                let mut i = 0;
                while i < $n {
                    check!(db[i] == bytes[i], "decoded string has the original bytes");
                    i += 1;
                }
                core::mem::forget(d);
            }
            Err(e) => {
                core::mem::forget(e);
                check!(false, "decoding the encoder's own output fails");
            }
        }
        check!(dec.remaining() == 0, "decoding consumes exactly the bytes written");
        kani::cover!(last_or(&bytes, 0xff) >= 0x80, "end of harness reachable (with a multi-byte scalar when n >= 2)");
    }};
}

//@ prop: C10
//@ family: K10-str
//@ tier: quick
//@ functions: <&str as EncodeInto>::encode_into, <String as DecodeFrom>::decode_from, Encoder::encode_size, Decoder::decode_varuint::<usize>, read_bytes_into_exact
//@ inst: Encoder<SliceOutputTarget>, Decoder<SliceInputSource>
//@ inputs: the empty string
//@ oracle: output == [0x00]; decode == ""; nothing left
//@ bound: unwind 4
#[kani::proof]
#[kani::unwind(4)]
fn k10_str_0() {
    str_roundtrip!(0, false)
}

//@ prop: C10
//@ family: K10-str
//@ tier: quick
//@ functions: <&str as EncodeInto>::encode_into, <String as DecodeFrom>::decode_from
//@ inst: Encoder<SliceOutputTarget>, Decoder<SliceInputSource>
//@ inputs: every valid UTF-8 string of exactly 1 byte (all of ASCII incl. NUL)
//@ oracle: output == [1<<2] ++ bytes; decode equal; nothing left; guard untouched
//@ bound: unwind 5
#[kani::proof]
#[kani::unwind(5)]
fn k10_str_1() {
    str_roundtrip!(1, false)
}

//@ prop: C10
//@ family: K10-str
//@ tier: quick
//@ functions: <&String as EncodeInto>::encode_into, <&str as EncodeInto>::encode_into, <String as DecodeFrom>::decode_from
//@ inst: Encoder<SliceOutputTarget>, Decoder<SliceInputSource>; encoded through &String
//@ inputs: every valid UTF-8 string of exactly 2 bytes (two ASCII or one scalar U+0080..U+07FF)
//@ oracle: output == [2<<2] ++ bytes; decode equal
//@ bound: unwind 6
#[kani::proof]
#[kani::unwind(6)]
fn k10_str_2() {
    str_roundtrip!(2, true)
}

//@ prop: C10
//@ family: K10-str
//@ tier: thorough
//@ functions: <&str as EncodeInto>::encode_into, <String as DecodeFrom>::decode_from
//@ inst: Encoder<SliceOutputTarget>, Decoder<SliceInputSource>
//@ inputs: every valid UTF-8 string of exactly 3 bytes (incl. all 3-byte scalars U+0800..U+FFFF without surrogates)
//@ oracle: output == [3<<2] ++ bytes; decode equal
//@ bound: unwind 7
#[kani::proof]
#[kani::unwind(7)]
fn k10_str_3() {
    str_roundtrip!(3, false)
}

//@ prop: C10
//@ family: K10-str
//@ tier: thorough
//@ functions: <&str as EncodeInto>::encode_into, <String as DecodeFrom>::decode_from
//@ inst: Encoder<SliceOutputTarget>, Decoder<SliceInputSource>
//@ inputs: every valid UTF-8 string of exactly 4 bytes (incl. every 4-byte scalar U+10000..U+10FFFF and all mixes of shorter scalars)
//@ oracle: output == [4<<2] ++ bytes; decode equal
//@ bound: unwind 8
//@ timeout: 1500
#[kani::proof]
#[kani::unwind(8)]
fn k10_str_4() {
    str_roundtrip!(4, false)
}

//@ prop: C10
//@ family: K10-str
//@ tier: thorough
//@ functions: <&String as EncodeInto>::encode_into, <String as DecodeFrom>::decode_from
//@ inst: Encoder<SliceOutputTarget>, Decoder<SliceInputSource>; encoded through &String
//@ inputs: every valid UTF-8 string of exactly 7 bytes (all mixes of 1- to 4-byte scalars)
//@ oracle: output == [7<<2] ++ bytes; decode equal
//@ bound: unwind 11
//@ timeout: 2400
#[kani::proof]
#[kani::unwind(11)]
fn k10_str_7() {
    str_roundtrip!(7, true)
}

//@ prop: C10
//@ family: K10-seq
//@ tier: quick
//@ functions: <&Vec<u16> as EncodeInto>::encode_into, <&[u16] as EncodeInto>::encode_into, <&u16 as EncodeInto>::encode_into, <Vec<u16> as DecodeFrom>::decode_from
//@ inst: Encoder<SliceOutputTarget>, Decoder<SliceInputSource>; T = u16
//@ inputs: Vec<u16> of exactly 2 arbitrary elements
//@ oracle: output == [2<<2, lo(a), hi(a), lo(b), hi(b)]; decode gives [a, b]; nothing left
//@ bound: unwind 5 (2 elements)
#[kani::proof]
#[kani::unwind(5)]
fn k10_seq_u16_2() {
    let a: u16 = kani::any();
    let b: u16 = kani::any();
    let mut v: Vec<u16> = Vec::new();
    v.push(a);
    v.push(b);
    let guard: u8 = kani::any();
    let mut buf = [guard; 6];
    let written;
    {
        let mut enc: Encoder<SliceOutputTarget> = Encoder::from(&mut buf[..]);
        let r = enc.encode(&v);
        check!(r.is_ok(), "encoding a short sequence succeeds");
        core::mem::forget(r);
        written = 6 - enc.remaining();
    }
    core::mem::forget(v);
    check!(written == 5, "size byte plus 2 x 2 bytes");
    check!(buf[0] == 2 << 2, "the size prefix is the element count << 2");
    check!(buf[1] == (a & 0xff) as u8 && buf[2] == (a >> 8) as u8, "first element little endian");
    check!(buf[3] == (b & 0xff) as u8 && buf[4] == (b >> 8) as u8, "second element little endian, in order");
    check!(buf[5] == guard, "the byte behind the encoding is untouched");
    let mut dec: Decoder<SliceInputSource> = Decoder::from(&buf[..5]);
    match dec.decode::<Vec<u16>>() {
        Ok(d) => {
            check!(d.len() == 2, "decoded sequence has the original length");
            check!(d[0] == a && d[1] == b, "decoded sequence has the original elements in order");
            core::mem::forget(d);
        }
        Err(e) => {
            core::mem::forget(e);
            check!(false, "decoding the encoder's own output fails");
        }
    }
    check!(dec.remaining() == 0, "decoding consumes exactly the bytes written");
    kani::cover!(a == 0xffff && b == 0x0100, "distinct extreme elements reachable");
}

//@ prop: C10
//@ family: K10-seq
//@ tier: quick
//@ functions: <&Vec<bool> as EncodeInto>::encode_into, <&[bool] as EncodeInto>::encode_into, <Vec<bool> as DecodeFrom>::decode_from
//@ inst: Encoder<SliceOutputTarget>, Decoder<SliceInputSource>; T = bool
//@ inputs: Vec<bool> of n in 0..=3 arbitrary elements (n symbolic)
//@ oracle: output == [n<<2] ++ one byte 0/1 per element; decode equal; nothing left
//@ bound: unwind 6 (3 elements)
#[kani::proof]
#[kani::unwind(6)]
fn k10_seq_bool_0_3() {
    let e: [bool; 3] = kani::any();
    let n: usize = kani::any();
    kani::assume(n <= 3);
    let mut v: Vec<bool> = Vec::new();
    let mut i = 0;
    while i < n {
        v.push(e[i]);
        i += 1;
    }
    let guard: u8 = kani::any();
    let mut buf = [guard; 5];
    let written;
    {
        let mut enc: Encoder<SliceOutputTarget> = Encoder::from(&mut buf[..]);
        let r = enc.encode(&v);
        check!(r.is_ok(), "encoding a short sequence succeeds");
        core::mem::forget(r);
        written = 5 - enc.remaining();
    }
    core::mem::forget(v);
    check!(written == n + 1, "size byte plus one byte per bool");
    check!(buf[0] == (n as u8) << 2, "the size prefix is the element count << 2");
    let mut i = 0;
    while i < 4 {
        if i < n {
            check!(buf[1 + i] == e[i] as u8, "element i is one byte, 0 or 1, in order");
        } else {
            check!(buf[1 + i] == guard, "bytes behind the encoding are untouched");
        }
        i += 1;
    }
    let mut dec: Decoder<SliceInputSource> = Decoder::from(&buf[..n + 1]);
    match dec.decode::<Vec<bool>>() {
        Ok(d) => {
            check!(d.len() == n, "decoded sequence has the original length");
            let mut i = 0;
            while i < n {
                check!(d[i] == e[i], "decoded sequence has the original elements in order");
                i += 1;
            }
            core::mem::forget(d);
        }
        Err(e) => {
            core::mem::forget(e);
            check!(false, "decoding the encoder's own output fails");
        }
    }
    check!(dec.remaining() == 0, "decoding consumes exactly the bytes written");
    kani::cover!(n == 0, "empty sequence reachable");
    kani::cover!(n == 3 && e[0] && !e[1] && e[2], "3 mixed elements reachable");
}

//@ prop: C10
//@ family: K10-seq
//@ tier: thorough
//@ functions: <&Vec<Vec<u8>> as EncodeInto>::encode_into, <&Vec<u8> as EncodeInto>::encode_into, <Vec<Vec<u8>> as DecodeFrom>::decode_from
//@ inst: Encoder<SliceOutputTarget>, Decoder<SliceInputSource>; T = Vec<u8> (nesting depth 2)
//@ inputs: [[a], [b, c]] with a, b, c arbitrary bytes
//@ oracle: output == [2<<2, 1<<2, a, 2<<2, b, c]; decode equal in shape and content
//@ bound: unwind 4
//@ timeout: 1500
#[kani::proof]
#[kani::unwind(4)]
fn k10_seq_nested_u8() {
    let a: u8 = kani::any();
    let b: u8 = kani::any();
    let c: u8 = kani::any();
    let mut v0: Vec<u8> = Vec::with_capacity(1);
    v0.push(a);
    let mut v1: Vec<u8> = Vec::with_capacity(2);
    v1.push(b);
    v1.push(c);
    let mut v: Vec<Vec<u8>> = Vec::with_capacity(2);
    v.push(v0);
    v.push(v1);
    let guard: u8 = kani::any();
    let mut buf = [guard; 7];
    let written;
    {
        let mut enc: Encoder<SliceOutputTarget> = Encoder::from(&mut buf[..]);
        let r = enc.encode(&v);
        check!(r.is_ok(), "encoding a nested sequence succeeds");
        core::mem::forget(r);
        written = 7 - enc.remaining();
    }
    core::mem::forget(v);
    check!(written == 6, "outer size, then each inner sequence with its own size");
    check!(buf[0] == 8 && buf[1] == 4 && buf[2] == a && buf[3] == 8 && buf[4] == b && buf[5] == c, "nested layout: sizes and elements in order");
    check!(buf[6] == guard, "the byte behind the encoding is untouched");
    let mut dec: Decoder<SliceInputSource> = Decoder::from(&buf[..6]);
    match dec.decode::<Vec<Vec<u8>>>() {
        Ok(d) => {
            check!(d.len() == 2 && d[0].len() == 1 && d[1].len() == 2, "decoded shape equals the original");
            check!(d[0][0] == a && d[1][0] == b && d[1][1] == c, "decoded content equals the original");
            core::mem::forget(d);
        }
        Err(e) => {
            core::mem::forget(e);
            check!(false, "decoding the encoder's own output fails");
        }
    }
    check!(dec.remaining() == 0, "decoding consumes exactly the bytes written");
    kani::cover!(a == 1 && b == 2 && c == 3, "sample content reachable");
}

//@ prop: C10
//@ family: K10-dict
//@ tier: thorough
//@ functions: <&BTreeMap<u8,u8> as EncodeInto>::encode_into (impl_encode_into_on_dictionary_type!), <BTreeMap<u8,u8> as DecodeFrom>::decode_from
//@ inst: Encoder<SliceOutputTarget>, Decoder<SliceInputSource>; K = V = u8
//@ inputs: BTreeMap<u8,u8> with exactly 1 entry (key, value arbitrary)
//@ oracle: output == [1<<2, key, value]; decode has the same entry; nothing left
//@ bound: unwind 3; 1 entry (two entries - harness-built map, B-tree iteration and decoding - exceeded 24 GB; a Vec<String> round trip likewise; decoding of 2-entry dictionaries incl. duplicates is K11-dict)
//@ timeout: 1500
#[kani::proof]
#[kani::unwind(3)]
fn k10_dict_btree_1() {
    let k0: u8 = kani::any();
    let v0: u8 = kani::any();
    let mut m: BTreeMap<u8, u8> = BTreeMap::new();
    m.insert(k0, v0);
    let guard: u8 = kani::any();
    let mut buf = [guard; 4];
    let written;
    {
        let mut enc: Encoder<SliceOutputTarget> = Encoder::from(&mut buf[..]);
        let r = enc.encode(&m);
        check!(r.is_ok(), "encoding a small dictionary succeeds");
        core::mem::forget(r);
        written = 4 - enc.remaining();
    }
    core::mem::forget(m);
    kani::cover!(k0 == 0xff && v0 == 0, "sample entry reachable");
    check!(written == 3, "size byte plus 2 bytes per entry");
    check!(buf[0] == 1 << 2 && buf[1] == k0 && buf[2] == v0, "size prefix, then key, then value");
    check!(buf[3] == guard, "the byte behind the encoding is untouched");
    let mut dec: Decoder<SliceInputSource> = Decoder::from(&buf[..3]);
    match dec.decode::<BTreeMap<u8, u8>>() {
        Ok(d) => {
            check!(d.len() == 1 && d.get(&k0) == Some(&v0), "the entry survives the round trip");
            core::mem::forget(d);
        }
        Err(e) => {
            core::mem::forget(e);
            check!(false, "decoding the encoder's own output fails");
        }
    }
    check!(dec.remaining() == 0, "decoding consumes exactly the bytes written");
}

fn stub_random_state() -> std::hash::RandomState {
    unsafe { core::mem::transmute::<(u64, u64), std::hash::RandomState>((0, 0)) }
}

//@ prop: C10
//@ family: K10-dict
//@ tier: quick
//@ functions: <&BTreeMap<u8,u8> as EncodeInto>::encode_into, <&HashMap<u8,u8> as EncodeInto>::encode_into (impl_encode_into_on_dictionary_type!), <BTreeMap<u8,u8> as DecodeFrom>::decode_from
//@ inst: Encoder<SliceOutputTarget>, Decoder<SliceInputSource>; the EMPTY dictionary of either map type (symbolic selector), followed by one more encoded byte
//@ inputs: map type; the byte encoded after the dictionary
//@ oracle: output == [0x00, next byte]: an empty dictionary still writes its size; decoding gives an empty map and leaves the next byte
//@ stubs: std::hash::RandomState::new -> fixed keys (HashMap::new())
//@ bound: unwind 3
#[kani::proof]
#[kani::unwind(3)]
#[kani::stub(std::hash::RandomState::new, stub_random_state)]
fn k10_dict_empty() {
    let hash: bool = kani::any();
    let next: u8 = kani::any();
    let guard: u8 = kani::any();
    let mut buf = [guard; 3];
    let written;
    {
        let mut enc: Encoder<SliceOutputTarget> = Encoder::from(&mut buf[..]);
        let r = if hash {
            let m: std::collections::HashMap<u8, u8> = std::collections::HashMap::new();
            let r = enc.encode(&m);
            core::mem::forget(m);
            r
        } else {
            let m: BTreeMap<u8, u8> = BTreeMap::new();
            let r = enc.encode(&m);
            core::mem::forget(m);
            r
        };
        check!(r.is_ok(), "encoding an empty dictionary succeeds");
        core::mem::forget(r);
        let r2 = enc.encode(next);
        check!(r2.is_ok(), "encoding the following byte succeeds");
        core::mem::forget(r2);
        written = 3 - enc.remaining();
    }
    kani::cover!(hash, "empty HashMap reachable");
    kani::cover!(!hash, "empty BTreeMap reachable");
    check!(written == 2, "an empty dictionary occupies exactly its size byte");
    check!(buf[0] == 0 && buf[1] == next && buf[2] == guard, "size 0, then the following data, nothing else");
    let mut dec: Decoder<SliceInputSource> = Decoder::from(&buf[..2]);
    match dec.decode::<BTreeMap<u8, u8>>() {
        Ok(d) => {
            check!(d.len() == 0, "the empty dictionary round-trips");
            core::mem::forget(d);
        }
        Err(e) => {
            core::mem::forget(e);
            check!(false, "decoding the encoder's own output fails");
        }
    }
    check!(dec.remaining() == 1, "only the size byte is consumed");
}

//@ prop: C10
//@ family: K10-seq
//@ tier: thorough
//@ functions: <&Vec<Vec<Vec<u8>>> as EncodeInto>::encode_into, <Vec<Vec<Vec<u8>>> as DecodeFrom>::decode_from
//@ inst: Encoder<SliceOutputTarget>, Decoder<SliceInputSource>; nesting depth 3 (the depth the property's quantifier names)
//@ inputs: [[[a, b]], []] with a, b arbitrary bytes
//@ oracle: output == [2<<2, 1<<2, 2<<2, a, b, 0]; decode equal in shape and content
//@ bound: unwind 4
//@ timeout: 1500
#[kani::proof]
#[kani::unwind(4)]
fn k10_seq_depth3() {
    let a: u8 = kani::any();
    let b: u8 = kani::any();
    let mut l3: Vec<u8> = Vec::with_capacity(2);
    l3.push(a);
    l3.push(b);
    let mut l2: Vec<Vec<u8>> = Vec::with_capacity(1);
    l2.push(l3);
    let empty: Vec<Vec<u8>> = Vec::with_capacity(1);
    let mut v: Vec<Vec<Vec<u8>>> = Vec::with_capacity(2);
    v.push(l2);
    v.push(empty);
    let guard: u8 = kani::any();
    let mut buf = [guard; 7];
    let written;
    {
        let mut enc: Encoder<SliceOutputTarget> = Encoder::from(&mut buf[..]);
        let r = enc.encode(&v);
        check!(r.is_ok(), "encoding a depth-3 sequence succeeds");
        core::mem::forget(r);
        written = 7 - enc.remaining();
    }
    core::mem::forget(v);
    kani::cover!(a == 1 && b == 2, "sample content reachable");
    check!(written == 6, "each level carries its own size prefix");
    check!(buf[0] == 8 && buf[1] == 4 && buf[2] == 8 && buf[3] == a && buf[4] == b && buf[5] == 0, "depth-3 layout: sizes and elements in order");
    check!(buf[6] == guard, "the byte behind the encoding is untouched");
    let mut dec: Decoder<SliceInputSource> = Decoder::from(&buf[..6]);
    match dec.decode::<Vec<Vec<Vec<u8>>>>() {
        Ok(d) => {
            check!(d.len() == 2 && d[0].len() == 1 && d[0][0].len() == 2 && d[1].len() == 0, "decoded shape equals the original");
            check!(d[0][0][0] == a && d[0][0][1] == b, "decoded content equals the original");
            core::mem::forget(d);
        }
        Err(e) => {
            core::mem::forget(e);
            check!(false, "decoding the encoder's own output fails");
        }
    }
    check!(dec.remaining() == 0, "decoding consumes exactly the bytes written");
}
