//@@ group: codec
//@@ target: slice-codec/src/encoding.rs
//
// C10, fixed-width types: for EVERY value of the type, the real `Encoder::encode` writes exactly size_of::<T>()
// bytes, byte i of the output is bits (8i..8i+8) of the two's-complement / IEEE-754 bit pattern (computed here
// with shifts, not with to_le_bytes), the byte behind the encoding is untouched, and the real `Decoder::decode`
// gives back the same bit pattern consuming exactly those bytes.  Both the owned (`T`) and the borrowed (`&T`)
// EncodeInto impls are driven.
use super::*;
use crate::buffer::slice::{SliceInputSource, SliceOutputTarget};
use crate::buffer::{InputSource, OutputTarget};
use crate::decoder::Decoder;

// slice-codec is no_std, so `assert!` is core's (not Kani's override) and its message would be lost: use kani::assert.
macro_rules! check {
    ($c:expr, $m:literal) => {
        kani::assert($c, $m)
    };
}

fn le(bits: u64, i: usize) -> u8 {
    ((bits >> (8 * (i as u32))) & 0xff) as u8
}

macro_rules! fixed_roundtrip {
    ($t:ty, $n:expr, $to_bits:expr, $borrowed:expr) => {{
        let v: $t = kani::any();
        let to_bits = $to_bits;
        let bits: u64 = to_bits(v);
        let guard: u8 = kani::any();
        let mut buf = [guard; $n + 1];
        let written;
        {
            let mut enc: Encoder<SliceOutputTarget> = Encoder::from(&mut buf[..]);
            let r = if $borrowed { enc.encode(&v) } else { enc.encode(v) };
            check!(r.is_ok(), "encode of a fixed-width value into a large enough buffer succeeds");
            core::mem::forget(r);
            written = ($n + 1) - enc.remaining();
        }
        check!(written == $n, "exactly size_of::<T>() bytes are written");
        let mut i = 0;
        while i < $n {
            check!(buf[i] == le(bits, i), "byte i is bits 8i..8i+8 of the value (little endian)");
            i += 1;
        }
        check!(buf[$n] == guard, "the byte behind the encoding is untouched");
        let mut dec: Decoder<SliceInputSource> = Decoder::from(&buf[..$n]);
        match dec.decode::<$t>() {
            Ok(d) => check!(to_bits(d) == bits, "decode(encode(v)) has the bit pattern of v"),
            Err(e) => {
                core::mem::forget(e);
                check!(false, "decoding the encoder's own output fails");
            }
        }
        check!(dec.remaining() == 0, "decoding consumes exactly the bytes written");
        kani::cover!(bits == 0, "zero reachable");
        kani::cover!(le(bits, $n - 1) >= 0x80, "top bit set reachable");
    }};
}

//@ prop: C10
//@ family: K10-fixed
//@ tier: quick
//@ functions: <bool as EncodeInto>::encode_into, <&bool as EncodeInto>::encode_into, <bool as DecodeFrom>::decode_from, SliceOutputTarget::write_byte, SliceInputSource::read_byte
//@ inst: Encoder<SliceOutputTarget>, Decoder<SliceInputSource>
//@ inputs: v: bool (both values), owned-or-borrowed: bool, guard byte: u8
//@ oracle: 1 byte written, equal to 0 for false and 1 for true; guard untouched; decode == v; nothing left
//@ bound: none needed (loop-free); unwind 3
#[kani::proof]
#[kani::unwind(3)]
fn k10_fixed_bool() {
    let v: bool = kani::any();
    let borrowed: bool = kani::any();
    let guard: u8 = kani::any();
    let mut buf = [guard; 2];
    let written;
    {
        let mut enc: Encoder<SliceOutputTarget> = Encoder::from(&mut buf[..]);
        let r = if borrowed { enc.encode(&v) } else { enc.encode(v) };
        check!(r.is_ok(), "encode of a bool succeeds");
        core::mem::forget(r);
        written = 2 - enc.remaining();
    }
    check!(written == 1, "a bool is one byte");
    check!(buf[0] == if v { 1 } else { 0 }, "false is 0 and true is 1");
    check!(buf[1] == guard, "the byte behind the encoding is untouched");
    let mut dec: Decoder<SliceInputSource> = Decoder::from(&buf[..1]);
    match dec.decode::<bool>() {
        Ok(d) => check!(d == v, "decode(encode(v)) == v"),
        Err(e) => {
            core::mem::forget(e);
            check!(false, "decoding the encoder's own output fails");
        }
    }
    check!(dec.remaining() == 0, "decoding consumes exactly the byte written");
    kani::cover!(v && borrowed, "true through &bool reachable");
    kani::cover!(!v && !borrowed, "false through bool reachable");
}

//@ prop: C10
//@ family: K10-fixed
//@ tier: quick
//@ functions: <u8 as EncodeInto>::encode_into, <u8 as DecodeFrom>::decode_from
//@ inst: Encoder<SliceOutputTarget>, Decoder<SliceInputSource>
//@ inputs: v: u8 all 2^8 values; guard byte
//@ oracle: bit-level little-endian layout written with shifts; exact length; guard byte; round trip; nothing left
//@ bound: unwind 3 (1 byte)
#[kani::proof]
#[kani::unwind(3)]
fn k10_fixed_u8() {
    fixed_roundtrip!(u8, 1, |x: u8| x as u64, false)
}

//@ prop: C10
//@ family: K10-fixed
//@ tier: quick
//@ functions: <&u8 as EncodeInto>::encode_into, <u8 as DecodeFrom>::decode_from
//@ inst: Encoder<SliceOutputTarget>, Decoder<SliceInputSource>
//@ inputs: v: u8 all values, encoded through &u8
//@ oracle: as k10_fixed_u8
//@ bound: unwind 3
#[kani::proof]
#[kani::unwind(3)]
fn k10_fixed_u8_ref() {
    fixed_roundtrip!(u8, 1, |x: u8| x as u64, true)
}

//@ prop: C10
//@ family: K10-fixed
//@ tier: quick
//@ functions: <i8 as EncodeInto>::encode_into, <i8 as DecodeFrom>::decode_from
//@ inst: Encoder<SliceOutputTarget>, Decoder<SliceInputSource>
//@ inputs: v: i8 all 2^8 values
//@ oracle: two's-complement bit pattern, 1 byte; round trip
//@ bound: unwind 3
#[kani::proof]
#[kani::unwind(3)]
fn k10_fixed_i8() {
    fixed_roundtrip!(i8, 1, |x: i8| (x as u8) as u64, false)
}

//@ prop: C10
//@ family: K10-fixed
//@ tier: quick
//@ functions: <&i8 as EncodeInto>::encode_into, <i8 as DecodeFrom>::decode_from
//@ inst: Encoder<SliceOutputTarget>, Decoder<SliceInputSource>
//@ inputs: v: i8 all values, through &i8
//@ oracle: as k10_fixed_i8
//@ bound: unwind 3
#[kani::proof]
#[kani::unwind(3)]
fn k10_fixed_i8_ref() {
    fixed_roundtrip!(i8, 1, |x: i8| (x as u8) as u64, true)
}

//@ prop: C10
//@ family: K10-fixed
//@ tier: quick
//@ functions: <u16 as EncodeInto>::encode_into, <u16 as DecodeFrom>::decode_from, write_bytes_exact, read_bytes_exact::<2>
//@ inst: Encoder<SliceOutputTarget>, Decoder<SliceInputSource>
//@ inputs: v: u16 all 2^16 values
//@ oracle: little-endian layout by shifts; exact length; guard; round trip
//@ bound: unwind 4 (2 bytes)
#[kani::proof]
#[kani::unwind(4)]
fn k10_fixed_u16() {
    fixed_roundtrip!(u16, 2, |x: u16| x as u64, false)
}

//@ prop: C10
//@ family: K10-fixed
//@ tier: quick
//@ functions: <i16 as EncodeInto>::encode_into, <&i16 as EncodeInto>::encode_into, <i16 as DecodeFrom>::decode_from
//@ inst: Encoder<SliceOutputTarget>, Decoder<SliceInputSource>
//@ inputs: v: i16 all 2^16 values, through &i16
//@ oracle: two's-complement little-endian layout; round trip
//@ bound: unwind 4
#[kani::proof]
#[kani::unwind(4)]
fn k10_fixed_i16() {
    fixed_roundtrip!(i16, 2, |x: i16| (x as u16) as u64, true)
}

//@ prop: C10
//@ family: K10-fixed
//@ tier: quick
//@ functions: <u32 as EncodeInto>::encode_into, <u32 as DecodeFrom>::decode_from
//@ inst: Encoder<SliceOutputTarget>, Decoder<SliceInputSource>
//@ inputs: v: u32 all 2^32 values
//@ oracle: little-endian layout by shifts; round trip
//@ bound: unwind 6 (4 bytes)
#[kani::proof]
#[kani::unwind(6)]
fn k10_fixed_u32() {
    fixed_roundtrip!(u32, 4, |x: u32| x as u64, true)
}

//@ prop: C10
//@ family: K10-fixed
//@ tier: quick
//@ functions: <i32 as EncodeInto>::encode_into, <i32 as DecodeFrom>::decode_from
//@ inst: Encoder<SliceOutputTarget>, Decoder<SliceInputSource>
//@ inputs: v: i32 all 2^32 values
//@ oracle: two's-complement little-endian layout; round trip
//@ bound: unwind 6
#[kani::proof]
#[kani::unwind(6)]
fn k10_fixed_i32() {
    fixed_roundtrip!(i32, 4, |x: i32| (x as u32) as u64, false)
}

//@ prop: C10
//@ family: K10-fixed
//@ tier: quick
//@ functions: <u64 as EncodeInto>::encode_into, <u64 as DecodeFrom>::decode_from
//@ inst: Encoder<SliceOutputTarget>, Decoder<SliceInputSource>
//@ inputs: v: u64 all 2^64 values
//@ oracle: little-endian layout by shifts; round trip
//@ bound: unwind 10 (8 bytes)
#[kani::proof]
#[kani::unwind(10)]
fn k10_fixed_u64() {
    fixed_roundtrip!(u64, 8, |x: u64| x, false)
}

//@ prop: C10
//@ family: K10-fixed
//@ tier: quick
//@ functions: <i64 as EncodeInto>::encode_into, <&i64 as EncodeInto>::encode_into, <i64 as DecodeFrom>::decode_from
//@ inst: Encoder<SliceOutputTarget>, Decoder<SliceInputSource>
//@ inputs: v: i64 all 2^64 values, through &i64
//@ oracle: two's-complement little-endian layout; round trip
//@ bound: unwind 10
#[kani::proof]
#[kani::unwind(10)]
fn k10_fixed_i64() {
    fixed_roundtrip!(i64, 8, |x: i64| x as u64, true)
}

//@ prop: C10
//@ family: K10-float
//@ tier: quick
//@ functions: <f32 as EncodeInto>::encode_into, <f32 as DecodeFrom>::decode_from
//@ inst: Encoder<SliceOutputTarget>, Decoder<SliceInputSource>
//@ inputs: bit pattern u32 all 2^32 values (every NaN payload, +-inf, subnormals, +-0)
//@ oracle: bytes == IEEE-754 binary32 bit pattern little endian; decode().to_bits() == bits
//@ bound: unwind 6
#[kani::proof]
#[kani::unwind(6)]
fn k10_float_f32() {
    let bits: u32 = kani::any();
    let v = f32::from_bits(bits);
    let guard: u8 = kani::any();
    let mut buf = [guard; 5];
    let written;
    {
        let mut enc: Encoder<SliceOutputTarget> = Encoder::from(&mut buf[..]);
        let r = enc.encode(v);
        check!(r.is_ok(), "encode f32 succeeds");
        core::mem::forget(r);
        written = 5 - enc.remaining();
    }
    check!(written == 4, "f32 is 4 bytes");
    let mut i = 0;
    while i < 4 {
        check!(buf[i] == le(bits as u64, i), "byte i is bits 8i..8i+8 of the IEEE-754 pattern");
        i += 1;
    }
    check!(buf[4] == guard, "the byte behind the encoding is untouched");
    let mut dec: Decoder<SliceInputSource> = Decoder::from(&buf[..4]);
    match dec.decode::<f32>() {
        Ok(d) => check!(d.to_bits() == bits, "decode(encode(v)) is bit-identical (NaN payload preserved)"),
        Err(e) => {
            core::mem::forget(e);
            check!(false, "decoding the encoder's own output fails");
        }
    }
    check!(dec.remaining() == 0, "decoding consumes exactly the bytes written");
    kani::cover!(v.is_nan() && (bits & 0x003f_ffff) == 0x2a, "NaN with payload reachable");
    kani::cover!(bits == 0x8000_0001, "negative subnormal reachable");
}

//@ prop: C10
//@ family: K10-float
//@ tier: quick
//@ functions: <f64 as EncodeInto>::encode_into, <&f64 as EncodeInto>::encode_into, <f64 as DecodeFrom>::decode_from
//@ inst: Encoder<SliceOutputTarget>, Decoder<SliceInputSource>
//@ inputs: bit pattern u64 all 2^64 values, through &f64
//@ oracle: bytes == IEEE-754 binary64 bit pattern little endian; decode().to_bits() == bits
//@ bound: unwind 10
#[kani::proof]
#[kani::unwind(10)]
fn k10_float_f64() {
    let bits: u64 = kani::any();
    let v = f64::from_bits(bits);
    let guard: u8 = kani::any();
    let mut buf = [guard; 9];
    let written;
    {
        let mut enc: Encoder<SliceOutputTarget> = Encoder::from(&mut buf[..]);
        let r = enc.encode(&v);
        check!(r.is_ok(), "encode f64 succeeds");
        core::mem::forget(r);
        written = 9 - enc.remaining();
    }
    check!(written == 8, "f64 is 8 bytes");
    let mut i = 0;
    while i < 8 {
        check!(buf[i] == le(bits, i), "byte i is bits 8i..8i+8 of the IEEE-754 pattern");
        i += 1;
    }
    check!(buf[8] == guard, "the byte behind the encoding is untouched");
    let mut dec: Decoder<SliceInputSource> = Decoder::from(&buf[..8]);
    match dec.decode::<f64>() {
        Ok(d) => check!(d.to_bits() == bits, "decode(encode(v)) is bit-identical (NaN payload preserved)"),
        Err(e) => {
            core::mem::forget(e);
            check!(false, "decoding the encoder's own output fails");
        }
    }
    check!(dec.remaining() == 0, "decoding consumes exactly the bytes written");
    kani::cover!(v.is_nan() && (bits & 0xffff) == 0x2a, "NaN with payload reachable");
    kani::cover!(v.is_infinite() && v < 0.0, "-inf reachable");
}
