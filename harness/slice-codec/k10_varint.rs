//@@ group: codec
//@@ target: slice-codec/src/encoding.rs
//
// C10, variable-width integers and sizes.  The reference below is written from the wire-format rule in the
// property text: "the shortest of 1, 2, 4 or 8 bytes that holds the value shifted left by two with the length
// code in the two low bits; values outside the 62-bit range are refused".  Thresholds are literals.
use super::*;
use crate::buffer::slice::{SliceInputSource, SliceOutputTarget};
use crate::buffer::{InputSource, OutputTarget};
use crate::decoder::Decoder;

macro_rules! check {
    ($c:expr, $m:literal) => {
        kani::assert($c, $m)
    };
}

fn le(bits: u64, i: usize) -> u8 {
    ((bits >> (8 * (i as u32))) & 0xff) as u8
}

/// (width in bytes, bit pattern of the whole encoding as a little-endian number) or None when the value must be refused.
fn ref_varint(v: i64) -> Option<(usize, u64)> {
    if v < -2305843009213693952 || v > 2305843009213693951 {
        return None; // outside [-2^61, 2^61 - 1]
    }
    let (w, code, mask): (usize, u64, u64) = if v >= -32 && v <= 31 {
        (1, 0, 0xff)
    } else if v >= -8192 && v <= 8191 {
        (2, 1, 0xffff)
    } else if v >= -536870912 && v <= 536870911 {
        (4, 2, 0xffff_ffff)
    } else {
        (8, 3, u64::MAX)
    };
    Some((w, (((v as u64) << 2) | code) & mask))
}

fn ref_varuint(v: u64) -> Option<(usize, u64)> {
    if v > 4611686018427387903 {
        return None; // above 2^62 - 1
    }
    let (w, code): (usize, u64) = if v <= 63 {
        (1, 0)
    } else if v <= 16383 {
        (2, 1)
    } else if v <= 1073741823 {
        (4, 2)
    } else {
        (8, 3)
    };
    Some((w, (v << 2) | code))
}

fn check_bytes(buf: &[u8; 10], guard: u8, written: usize, expect: Option<(usize, u64)>, ok: bool) {
    match expect {
        Some((w, pat)) => {
            check!(ok, "a value inside the 62-bit range is accepted");
            check!(written == w, "the encoding occupies the shortest of 1, 2, 4, 8 bytes that holds value << 2");
            let mut i = 0;
            while i < 8 {
                if i < w {
                    check!(buf[i] == le(pat, i), "payload is (value << 2 | width code) in little-endian order");
                } else {
                    check!(buf[i] == guard, "bytes behind the encoding are untouched");
                }
                i += 1;
            }
            check!((buf[0] & 3) as usize == match w { 1 => 0, 2 => 1, 4 => 2, _ => 3 }, "the two low bits of the first byte hold the width code");
        }
        None => {
            check!(!ok, "a value outside the 62-bit range is refused, not truncated");
            check!(written == 0, "a refused value writes nothing");
            let mut i = 0;
            while i < 10 {
                check!(buf[i] == guard, "a refused value leaves the buffer untouched");
                i += 1;
            }
        }
    }
    check!(buf[8] == guard && buf[9] == guard, "bytes behind the encoding are untouched");
}

//@ prop: C10
//@ family: K10-varint
//@ tier: quick
//@ functions: Encoder::encode_varint::<i64>, Decoder::decode_varint::<i64>, <i8|i16|i32|i64 as EncodeInto>::encode_into, <i8|i16|i32|i64 as DecodeFrom>::decode_from, encoding::varint_range_error
//@ inst: Encoder<SliceOutputTarget>, Decoder<SliceInputSource>
//@ inputs: v: i64, all 2^64 values (every width threshold +-2^5, +-2^13, +-2^29, +-2^61 included); guard byte
//@ oracle: reference width/pattern from the wire rule with literal thresholds; exact bytes; bytes behind untouched; decode == v consuming exactly width; outside +-2^61: Err and nothing written
//@ bound: unwind 12 (10-byte buffer)
#[kani::proof]
#[kani::unwind(12)]
fn k10_varint_i64() {
    let v: i64 = kani::any();
    let guard: u8 = kani::any();
    let mut buf = [guard; 10];
    let (ok, written);
    {
        let mut enc: Encoder<SliceOutputTarget> = Encoder::from(&mut buf[..]);
        let r = enc.encode_varint(v);
        ok = r.is_ok();
        core::mem::forget(r);
        written = 10 - enc.remaining();
    }
    let expect = ref_varint(v);
    check_bytes(&buf, guard, written, expect, ok);
    if let Some((w, _)) = expect {
        let mut dec: Decoder<SliceInputSource> = Decoder::from(&buf[..w]);
        match dec.decode_varint::<i64>() {
            Ok(d) => check!(d == v, "decode_varint(encode_varint(v)) == v"),
            Err(e) => {
                core::mem::forget(e);
                check!(false, "decoding the encoder's own output fails");
            }
        }
        check!(dec.remaining() == 0, "decoding consumes exactly the bytes written");
    }
    kani::cover!(v == 31, "2^5-1 reachable");
    kani::cover!(v == 32, "2^5 reachable");
    kani::cover!(v == -33, "-2^5-1 reachable");
    kani::cover!(v == 8192, "2^13 reachable");
    kani::cover!(v == -536870913, "-2^29-1 reachable");
    kani::cover!(v == 2305843009213693951, "2^61-1 reachable");
    kani::cover!(v == 2305843009213693952, "2^61 reachable (refused)");
    kani::cover!(v == i64::MIN, "i64::MIN reachable (refused)");
}

//@ prop: C10
//@ family: K10-varint
//@ tier: quick
//@ functions: Encoder::encode_varuint::<u64>, Decoder::decode_varuint::<u64>, <u8|u16|u32|u64 as EncodeInto>::encode_into, <u8|u16|u32|u64 as DecodeFrom>::decode_from, encoding::varuint_range_error
//@ inst: Encoder<SliceOutputTarget>, Decoder<SliceInputSource>
//@ inputs: v: u64, all 2^64 values (thresholds 2^6, 2^14, 2^30, 2^62 included); guard byte
//@ oracle: as k10_varint_i64 with the unsigned thresholds
//@ bound: unwind 12
#[kani::proof]
#[kani::unwind(12)]
fn k10_varuint_u64() {
    let v: u64 = kani::any();
    let guard: u8 = kani::any();
    let mut buf = [guard; 10];
    let (ok, written);
    {
        let mut enc: Encoder<SliceOutputTarget> = Encoder::from(&mut buf[..]);
        let r = enc.encode_varuint(v);
        ok = r.is_ok();
        core::mem::forget(r);
        written = 10 - enc.remaining();
    }
    let expect = ref_varuint(v);
    check_bytes(&buf, guard, written, expect, ok);
    if let Some((w, _)) = expect {
        let mut dec: Decoder<SliceInputSource> = Decoder::from(&buf[..w]);
        match dec.decode_varuint::<u64>() {
            Ok(d) => check!(d == v, "decode_varuint(encode_varuint(v)) == v"),
            Err(e) => {
                core::mem::forget(e);
                check!(false, "decoding the encoder's own output fails");
            }
        }
        check!(dec.remaining() == 0, "decoding consumes exactly the bytes written");
    }
    kani::cover!(v == 63, "2^6-1 reachable");
    kani::cover!(v == 64, "2^6 reachable");
    kani::cover!(v == 16384, "2^14 reachable");
    kani::cover!(v == 1073741823, "2^30-1 reachable");
    kani::cover!(v == 4611686018427387903, "2^62-1 reachable");
    kani::cover!(v == 4611686018427387904, "2^62 reachable (refused)");
    kani::cover!(v == u64::MAX, "u64::MAX reachable (refused)");
}

//@ prop: C10
//@ family: K10-varint
//@ tier: quick
//@ functions: Encoder::encode_size, Decoder::decode_size, Encoder::encode_varuint::<u64>, Decoder::decode_varuint::<usize>
//@ inst: Encoder<SliceOutputTarget>, Decoder<SliceInputSource>
//@ inputs: n: usize, all 2^64 values
//@ oracle: same bytes as the varuint reference for n; decode_size == n; above 2^62-1 refused with nothing written
//@ bound: unwind 12
#[kani::proof]
#[kani::unwind(12)]
fn k10_size_usize() {
    let v: usize = kani::any();
    let guard: u8 = kani::any();
    let mut buf = [guard; 10];
    let (ok, written);
    {
        let mut enc: Encoder<SliceOutputTarget> = Encoder::from(&mut buf[..]);
        let r = enc.encode_size(v);
        ok = r.is_ok();
        core::mem::forget(r);
        written = 10 - enc.remaining();
    }
    let expect = ref_varuint(v as u64);
    check_bytes(&buf, guard, written, expect, ok);
    if let Some((w, _)) = expect {
        let mut dec: Decoder<SliceInputSource> = Decoder::from(&buf[..w]);
        match dec.decode_size() {
            Ok(d) => check!(d == v, "decode_size(encode_size(n)) == n"),
            Err(e) => {
                core::mem::forget(e);
                check!(false, "decoding the encoder's own output fails");
            }
        }
        check!(dec.remaining() == 0, "decoding consumes exactly the bytes written");
    }
    kani::cover!(v == 64, "2^6 reachable");
    kani::cover!(v == 1073741824, "2^30 reachable");
    kani::cover!(v == 4611686018427387904, "2^62 reachable (refused)");
}

// The narrower `impl Into<i64>` / `impl Into<u64>` entry points (what callers with i32 tags, u8 values ... use).
macro_rules! narrow_signed {
    ($t:ty) => {{
        let x: $t = kani::any();
        let guard: u8 = kani::any();
        let mut buf = [guard; 10];
        let (ok, written);
        {
            let mut enc: Encoder<SliceOutputTarget> = Encoder::from(&mut buf[..]);
            let r = enc.encode_varint(x);
            ok = r.is_ok();
            core::mem::forget(r);
            written = 10 - enc.remaining();
        }
        let expect = ref_varint(x as i64);
        check_bytes(&buf, guard, written, expect, ok);
        check!(ok, "every value of a type narrower than 62 bits is encodable");
        let w = written;
        let mut dec: Decoder<SliceInputSource> = Decoder::from(&buf[..w]);
        match dec.decode_varint::<$t>() {
            Ok(d) => check!(d == x, "decode_varint::<T>(encode_varint(x)) == x"),
            Err(e) => {
                core::mem::forget(e);
                check!(false, "decoding the encoder's own output fails");
            }
        }
        check!(dec.remaining() == 0, "decoding consumes exactly the bytes written");
        kani::cover!(x == <$t>::MIN, "MIN reachable");
        kani::cover!(x == <$t>::MAX, "MAX reachable");
    }};
}
macro_rules! narrow_unsigned {
    ($t:ty) => {{
        let x: $t = kani::any();
        let guard: u8 = kani::any();
        let mut buf = [guard; 10];
        let (ok, written);
        {
            let mut enc: Encoder<SliceOutputTarget> = Encoder::from(&mut buf[..]);
            let r = enc.encode_varuint(x);
            ok = r.is_ok();
            core::mem::forget(r);
            written = 10 - enc.remaining();
        }
        let expect = ref_varuint(x as u64);
        check_bytes(&buf, guard, written, expect, ok);
        check!(ok, "every value of a type narrower than 62 bits is encodable");
        let w = written;
        let mut dec: Decoder<SliceInputSource> = Decoder::from(&buf[..w]);
        match dec.decode_varuint::<$t>() {
            Ok(d) => check!(d == x, "decode_varuint::<T>(encode_varuint(x)) == x"),
            Err(e) => {
                core::mem::forget(e);
                check!(false, "decoding the encoder's own output fails");
            }
        }
        check!(dec.remaining() == 0, "decoding consumes exactly the bytes written");
        kani::cover!(x == 0, "0 reachable");
        kani::cover!(x == <$t>::MAX, "MAX reachable");
    }};
}

//@ prop: C10
//@ family: K10-varint-narrow
//@ tier: quick
//@ functions: Encoder::encode_varint::<i32>, Decoder::decode_varint::<i32>
//@ inst: Encoder<SliceOutputTarget>, Decoder<SliceInputSource>; impl Into<i64> = i32 (varint32: tags, discriminants)
//@ inputs: x: i32 all 2^32 values
//@ oracle: bytes == reference encoding of x as i64; round trip through decode_varint::<i32>
//@ bound: unwind 12
#[kani::proof]
#[kani::unwind(12)]
fn k10_varint_i32() {
    narrow_signed!(i32)
}

//@ prop: C10
//@ family: K10-varint-narrow
//@ tier: thorough
//@ functions: Encoder::encode_varint::<i16>, Decoder::decode_varint::<i16>
//@ inst: impl Into<i64> = i16
//@ inputs: x: i16 all values
//@ oracle: as k10_varint_i32
//@ bound: unwind 12
#[kani::proof]
#[kani::unwind(12)]
fn k10_varint_i16() {
    narrow_signed!(i16)
}

//@ prop: C10
//@ family: K10-varint-narrow
//@ tier: thorough
//@ functions: Encoder::encode_varint::<i8>, Decoder::decode_varint::<i8>
//@ inst: impl Into<i64> = i8
//@ inputs: x: i8 all values
//@ oracle: as k10_varint_i32
//@ bound: unwind 12
#[kani::proof]
#[kani::unwind(12)]
fn k10_varint_i8() {
    narrow_signed!(i8)
}

//@ prop: C10
//@ family: K10-varint-narrow
//@ tier: quick
//@ functions: Encoder::encode_varuint::<u32>, Decoder::decode_varuint::<u32>
//@ inst: impl Into<u64> = u32 (varuint32)
//@ inputs: x: u32 all 2^32 values
//@ oracle: bytes == reference encoding of x as u64; round trip through decode_varuint::<u32>
//@ bound: unwind 12
#[kani::proof]
#[kani::unwind(12)]
fn k10_varuint_u32() {
    narrow_unsigned!(u32)
}

//@ prop: C10
//@ family: K10-varint-narrow
//@ tier: thorough
//@ functions: Encoder::encode_varuint::<u16>, Decoder::decode_varuint::<u16>
//@ inst: impl Into<u64> = u16
//@ inputs: x: u16 all values
//@ oracle: as k10_varuint_u32
//@ bound: unwind 12
#[kani::proof]
#[kani::unwind(12)]
fn k10_varuint_u16() {
    narrow_unsigned!(u16)
}

//@ prop: C10
//@ family: K10-varint-narrow
//@ tier: thorough
//@ functions: Encoder::encode_varuint::<u8>, Decoder::decode_varuint::<u8>
//@ inst: impl Into<u64> = u8
//@ inputs: x: u8 all values
//@ oracle: as k10_varuint_u32
//@ bound: unwind 12
#[kani::proof]
#[kani::unwind(12)]
fn k10_varuint_u8() {
    narrow_unsigned!(u8)
}
