//@@ group: codec
//@@ target: slice-codec/src/decoding.rs
//@@ crate_attr: feature(allocator_api)
//@@ crate_attr: feature(try_reserve_kind)
//
// C11 for strings, sequences, dictionaries, skip_tagged_fields: EVERY byte string up to a small length.
// Case split on the announced size (DESIGN 2.3): "announced <= 3" harnesses decide value/validity/consumption,
// "announced > bytes remaining" harnesses decide that the result is Err and how much memory is asked for.
use super::*;
use crate::buffer::slice::SliceInputSource;
use crate::buffer::InputSource;
use crate::{ErrorKind, InvalidDataErrorKind};
use alloc::collections::TryReserveError;

macro_rules! check {
    ($c:expr, $m:literal) => {
        kani::assert($c, $m)
    };
}

fn width_of(first: u8) -> usize {
    match first & 3 {
        0 => 1,
        1 => 2,
        2 => 4,
        _ => 8,
    }
}

/// reference parse of a size prefix at the start of `buf` (loop-free): Some((width, value)) if complete
fn ref_size(buf: &[u8], len: usize) -> Option<(usize, u64)> {
    if len == 0 {
        return None;
    }
    let w = width_of(buf[0]);
    if w > len {
        return None;
    }
    let b = |i: usize| -> u64 { if i < w { (buf[i] as u64) << (8 * (i as u32)) } else { 0 } };
    let x = match w {
        1 => b(0),
        2 => b(0) | b(1),
        4 => b(0) | b(1) | b(2) | b(3),
        _ => b(0) | b(1) | b(2) | b(3) | b(4) | b(5) | b(6) | b(7),
    };
    Some((w, x >> 2))
}

/// hand-written UTF-8 validity (Unicode table 3-7: 1- to 4-byte well-formed sequences), independent of core::str
fn utf8_ok(b: &[u8], from: usize, n: usize) -> bool {
    let mut i = 0;
    while i < n {
        let c = b[from + i];
        if c < 0x80 {
            i += 1;
        } else if c >= 0xC2 && c <= 0xDF {
            if i + 1 < n && b[from + i + 1] >= 0x80 && b[from + i + 1] <= 0xBF {
                i += 2;
            } else {
                return false;
            }
        } else if c >= 0xE0 && c <= 0xEF {
            let lo = if c == 0xE0 { 0xA0 } else { 0x80 };
            let hi = if c == 0xED { 0x9F } else { 0xBF };
            if i + 2 < n && b[from + i + 1] >= lo && b[from + i + 1] <= hi && b[from + i + 2] >= 0x80 && b[from + i + 2] <= 0xBF {
                i += 3;
            } else {
                return false;
            }
        } else if c >= 0xF0 && c <= 0xF4 {
            let lo = if c == 0xF0 { 0x90 } else { 0x80 };
            let hi = if c == 0xF4 { 0x8F } else { 0xBF };
            if i + 3 < n
                && b[from + i + 1] >= lo
                && b[from + i + 1] <= hi
                && b[from + i + 2] >= 0x80
                && b[from + i + 2] <= 0xBF
                && b[from + i + 3] >= 0x80
                && b[from + i + 3] <= 0xBF
            {
                i += 4;
            } else {
                return false;
            }
        } else {
            return false;
        }
    }
    true
}

// Strings with a concrete announced length N (a symbolic length sends CBMC's memory past 20 GB, DESIGN 2.7): the
// buffer is [N << 2, N arbitrary content bytes, 1 arbitrary trailing byte].
macro_rules! string_exact {
    ($n:expr) => {{
        let mut buf: [u8; $n + 2] = kani::any();
        buf[0] = ($n as u8) << 2; // concrete announced length (an assumed-equal symbolic one is not constant-propagated)
        let mut dec: Decoder<SliceInputSource> = Decoder::from(&buf[..]);
        let r = dec.decode::<String>();
        if !utf8_ok(&buf, 1, $n) {
            match &r {
                Ok(_) => check!(false, "invalid UTF-8 is never accepted"),
                Err(_) => {} // an error, of whatever kind, is what the property asks for
            }
        } else {
            match &r {
                Ok(s) => {
                    check!(s.len() == $n, "the string has the announced length");
                    let sb = s.as_bytes();
                    let mut i = 0;
                    while i < $n {
                        check!(sb[i] == buf[1 + i], "the string is made of exactly the announced bytes");
                        i += 1;
                    }
                    check!(dec.remaining() == 1, "size prefix plus announced bytes are consumed, the trailing byte is not");
                }
                Err(_) => check!(false, "a complete, valid UTF-8 string always decodes"),
            }
        }
        kani::cover!(r.is_ok(), "accepted reachable");
        kani::cover!($n == 0 || r.is_err(), "invalid UTF-8 rejected reachable");
        core::mem::forget(r);
    }};
}

//@ prop: C11
//@ family: K11-string
//@ tier: quick
//@ functions: <String as DecodeFrom>::decode_from, Decoder::decode_varuint::<usize>, SliceInputSource::read_bytes_into_exact, String::from_utf8, From<FromUtf8Error> for Error
//@ inst: Decoder<SliceInputSource>
//@ inputs: [1<<2, b, t] for every byte b and trailing byte t
//@ oracle: Ok(s) iff b is valid UTF-8 by a hand-written validator (here: b < 0x80); s == [b]; 2 bytes consumed, trailing byte left; else an error; no panic, no read outside the slice
//@ bound: unwind 6; announced length concrete (1)
#[kani::proof]
#[kani::unwind(6)]
fn k11_string_1() {
    string_exact!(1)
}

//@ prop: C11
//@ family: K11-string
//@ tier: quick
//@ functions: <String as DecodeFrom>::decode_from, String::from_utf8
//@ inst: Decoder<SliceInputSource>
//@ inputs: [2<<2, b0, b1, t] for all bytes b0, b1, t (all 2-byte UTF-8 forms incl. overlong C0/C1 and stray continuation bytes)
//@ oracle: as k11_string_1 with the 2-byte validator
//@ bound: unwind 6; announced length concrete (2)
#[kani::proof]
#[kani::unwind(6)]
fn k11_string_2() {
    string_exact!(2)
}

//@ prop: C11
//@ family: K11-string
//@ tier: thorough
//@ functions: <String as DecodeFrom>::decode_from, String::from_utf8
//@ inst: Decoder<SliceInputSource>
//@ inputs: [3<<2, b0, b1, b2, t] for all bytes (all 3-byte forms incl. surrogates ED A0..BF and overlong E0 80..9F)
//@ oracle: as k11_string_1 with the 3-byte validator
//@ bound: unwind 7; announced length concrete (3)
#[kani::proof]
#[kani::unwind(7)]
fn k11_string_3() {
    string_exact!(3)
}

macro_rules! wide_size_string {
    ($form:expr, $w:expr) => {{
        let b: u8 = kani::any();
        let mut buf = [0u8; $w + 1];
        buf[0] = (1 << 2) | $form;
        buf[$w] = b;
        let mut dec: Decoder<SliceInputSource> = Decoder::from(&buf[..]);
        let r = dec.decode::<String>();
        kani::cover!(r.is_ok(), "accepted reachable");
        kani::cover!(r.is_err(), "invalid content rejected reachable");
        match &r {
            Ok(s) => {
                check!(b < 0x80, "invalid UTF-8 is never accepted");
                check!(s.len() == 1 && s.as_bytes()[0] == b, "the string is the announced byte");
                check!(dec.remaining() == 0, "size prefix plus one byte consumed");
            }
            Err(_) => check!(b >= 0x80, "a complete, valid string always decodes whatever the size spelling"),
        }
        core::mem::forget(r);
    }};
}

//@ prop: C11
//@ family: K11-string
//@ tier: thorough
//@ functions: <String as DecodeFrom>::decode_from, String::from_utf8
//@ inst: Decoder<SliceInputSource>
//@ inputs: [4<<2, b0, b1, b2, b3, t] for all bytes (all 4-byte forms incl. F0 80..8F overlong, F4 90.. beyond U+10FFFF, F5.. and truncated multi-byte sequences at the end)
//@ oracle: as k11_string_1 with the full validator
//@ bound: unwind 8; announced length concrete (4)
//@ timeout: 1500
#[kani::proof]
#[kani::unwind(8)]
fn k11_string_4() {
    string_exact!(4)
}

//@ prop: C11
//@ family: K11-string
//@ tier: thorough
//@ functions: <String as DecodeFrom>::decode_from, String::from_utf8
//@ inst: Decoder<SliceInputSource>
//@ inputs: [7<<2, seven arbitrary bytes, t]: every 7-byte content (2^56 byte strings)
//@ oracle: as k11_string_1 with the full validator
//@ bound: unwind 11; announced length concrete (7)
//@ timeout: 2400
#[kani::proof]
#[kani::unwind(11)]
fn k11_string_7() {
    string_exact!(7)
}

//@ prop: C11
//@ family: K11-string
//@ tier: quick
//@ functions: <String as DecodeFrom>::decode_from, Decoder::decode_varuint::<usize> (2-, 4-, 8-byte forms)
//@ inst: Decoder<SliceInputSource>
//@ inputs: the 2-, 4- and 8-byte size forms announcing exactly 1 (every non-minimal spelling of size 1), followed by one arbitrary byte
//@ oracle: decodes like the 1-byte form: Ok iff the content byte < 0x80; the string is that byte; everything consumed
//@ bound: unwind 6; size form chosen by a symbolic selector over three concrete layouts
#[kani::proof]
#[kani::unwind(6)]
fn k11_string_wide_size() {
    let form: u8 = kani::any();
    kani::assume(form >= 1 && form <= 3);
    if form == 1 {
        wide_size_string!(1, 2)
    } else if form == 2 {
        wide_size_string!(2, 4)
    } else {
        wide_size_string!(3, 8)
    }
}

// ---- announced size larger than what is left: result and requested reservation -------------------------------
// Largest reservation, in bytes, that the code under test asked the allocator for.
//  * Under Kani it is recorded by a monitoring stub substituted for Vec::try_reserve_exact.  A request of at most LIMIT
//    elements (LIMIT = the number of bytes really present, a constant per stub: a limit passed through a `static mut`
//    written by the harness made CBMC report a spurious dealloc of the untouched vector) is served by really
//    reserving LIMIT; a larger one fails like an allocation failure.  Requests above isize::MAX bytes are not recorded:
//    the real call rejects them with CapacityOverflow before reaching the allocator, so they cost nothing.
//  * In a native replay (cargo kani playback = cargo test; stubs are not applied there) the same quantity is observed
//    by a counting global allocator, so that a counterexample reproduces outside the model.
static mut REQUESTED_BYTES_MAX: usize = 0;

macro_rules! monitoring_stub {
    ($name:ident, $limit:expr) => {
        fn $name<T, A: core::alloc::Allocator>(v: &mut Vec<T, A>, additional: usize) -> core::result::Result<(), TryReserveError> {
            let bytes = additional.saturating_mul(core::mem::size_of::<T>());
            if bytes <= isize::MAX as usize {
                unsafe {
                    if bytes > REQUESTED_BYTES_MAX {
                        REQUESTED_BYTES_MAX = bytes;
                    }
                }
            }
            if additional <= $limit {
                v.reserve_exact($limit);
                return Ok(());
            }
            Err(alloc::collections::TryReserveErrorKind::CapacityOverflow.into())
        }
    };
}
monitoring_stub!(mon_reserve_limit_0, 0);
monitoring_stub!(mon_reserve_limit_1, 1);
monitoring_stub!(mon_reserve_limit_2, 2);

#[cfg(test)]
mod native_alloc {
    // Only compiled for the NATIVE replay of a counterexample (cargo kani playback = cfg(test)); Kani never sees it.
    // It stands in for what CBMC models and a native run cannot observe: the size of every allocation request (stubs are
    // not applied natively) and writes past the end of a heap allocation (CBMC's pointer checks; natively silent UB).
    // Every allocation is padded with GUARD bytes of a known pattern; `verif_guards_intact` inspects all live ones.
    extern crate std;
    use core::alloc::{GlobalAlloc, Layout};
    use core::sync::atomic::{AtomicUsize, Ordering};
    pub static LARGEST: AtomicUsize = AtomicUsize::new(0);
    const GUARD: usize = 64;
    const PATTERN: u8 = 0xA5;
    const SLOTS: usize = 4096;
    static PTRS: [AtomicUsize; SLOTS] = [const { AtomicUsize::new(0) }; SLOTS];
    static SIZES: [AtomicUsize; SLOTS] = [const { AtomicUsize::new(0) }; SLOTS];
    static CORRUPTED: AtomicUsize = AtomicUsize::new(0);
    fn padded(l: Layout, size: usize) -> Layout {
        Layout::from_size_align(size + GUARD, l.align()).unwrap()
    }
    unsafe fn arm(p: *mut u8, size: usize) {
        if p.is_null() {
            return;
        }
        unsafe { core::ptr::write_bytes(p.add(size), PATTERN, GUARD) };
        let mut i = 0;
        while i < SLOTS {
            if PTRS[i].compare_exchange(0, p as usize, Ordering::SeqCst, Ordering::SeqCst).is_ok() {
                SIZES[i].store(size, Ordering::SeqCst);
                return;
            }
            i += 1;
        }
        // table full: this allocation is simply not watched
    }
    unsafe fn intact(p: *const u8, size: usize) -> bool {
        let mut j = 0;
        while j < GUARD {
            if unsafe { *p.add(size + j) } != PATTERN {
                return false;
            }
            j += 1;
        }
        true
    }
    unsafe fn disarm(p: *mut u8, size: usize) {
        let mut i = 0;
        while i < SLOTS {
            if PTRS[i].load(Ordering::SeqCst) == p as usize {
                if !unsafe { intact(p, size) } {
                    CORRUPTED.fetch_add(1, Ordering::SeqCst);
                }
                SIZES[i].store(0, Ordering::SeqCst);
                PTRS[i].store(0, Ordering::SeqCst);
                return;
            }
            i += 1;
        }
    }
    /// true iff no write has landed in the guard region behind any heap allocation, live or already released
    #[no_mangle]
    pub extern "Rust" fn verif_guards_intact() -> bool {
        if CORRUPTED.load(Ordering::SeqCst) != 0 {
            return false;
        }
        let mut i = 0;
        while i < SLOTS {
            let p = PTRS[i].load(Ordering::SeqCst);
            if p != 0 && !unsafe { intact(p as *const u8, SIZES[i].load(Ordering::SeqCst)) } {
                return false;
            }
            i += 1;
        }
        true
    }
    pub struct Counting;
    unsafe impl GlobalAlloc for Counting {
        unsafe fn alloc(&self, l: Layout) -> *mut u8 {
            LARGEST.fetch_max(l.size(), Ordering::Relaxed);
            let p = unsafe { std::alloc::System.alloc(padded(l, l.size())) };
            unsafe { arm(p, l.size()) };
            p
        }
        unsafe fn dealloc(&self, p: *mut u8, l: Layout) {
            unsafe { disarm(p, l.size()) };
            unsafe { std::alloc::System.dealloc(p, padded(l, l.size())) }
        }
        unsafe fn realloc(&self, p: *mut u8, l: Layout, new_size: usize) -> *mut u8 {
            LARGEST.fetch_max(new_size, Ordering::Relaxed);
            unsafe { disarm(p, l.size()) };
            let q = unsafe { std::alloc::System.realloc(p, padded(l, l.size()), new_size + GUARD) };
            if q.is_null() {
                unsafe { arm(p, l.size()) };
            } else {
                unsafe { arm(q, new_size) };
            }
            q
        }
    }
    #[global_allocator]
    static A: Counting = Counting;
}

fn monitor_reset() {
    unsafe {
        REQUESTED_BYTES_MAX = 0;
    }
    #[cfg(test)]
    native_alloc::LARGEST.store(0, core::sync::atomic::Ordering::Relaxed);
}

fn monitor_largest_request_bytes() -> usize {
    let modelled = unsafe { REQUESTED_BYTES_MAX };
    #[cfg(test)]
    {
        let native = native_alloc::LARGEST.load(core::sync::atomic::Ordering::Relaxed);
        return if native > modelled { native } else { modelled };
    }
    #[allow(unreachable_code)]
    modelled
}

const SLACK_BYTES: usize = 4096;

// $len = total bytes, $w = width of the size prefix (concrete, so that the number of bytes behind it is a constant)
macro_rules! announce_too_much {
    ($len:expr, $w:expr, $t:ty, $elem_size:expr) => {{
        let mut buf: [u8; $len] = kani::any();
        // the width code is assigned, not assumed, so that symbolic execution follows one size form only
        buf[0] = (buf[0] & 0xFC) | (match $w { 1 => 0, 2 => 1, 4 => 2, _ => 3 });
        let n = match ref_size(&buf, $len) {
            Some((_, n)) => n,
            None => 0,
        };
        const REST: usize = $len - $w;
        kani::assume(n > REST as u64);
        monitor_reset();
        let mut dec: Decoder<SliceInputSource> = Decoder::from(&buf[..]);
        let r = dec.decode::<$t>();
        let req = monitor_largest_request_bytes();
        kani::cover!(n > 1_000_000, "announced size above 10^6 reachable");
        kani::cover!(n == (REST as u64) + 1, "announced size one more than remaining reachable");
        check!(r.is_err(), "a collection announcing more elements than bytes remain never decodes");
        check!(req <= (REST + SLACK_BYTES) * $elem_size, "memory asked for is governed by the bytes present, not by the announced size");
        core::mem::forget(r);
    }};
}

//@ prop: C11
//@ family: K11-announce
//@ tier: quick
//@ functions: <String as DecodeFrom>::decode_from (reservation from the announced length), Decoder::decode_varuint::<usize>
//@ inst: Decoder<SliceInputSource>
//@ inputs: every 4-byte string that is a 4-byte size form announcing >= 1 byte (up to 2^30-1) with nothing behind it
//@ oracle: result is Err; the largest reservation requested (monitoring stub; counting allocator in the native replay) <= (bytes remaining + 4096)
//@ stubs: Vec::try_reserve_exact -> monitoring stub (records the request; serves requests <= bytes present by really reserving, fails larger ones like an allocation failure)
//@ bound: unwind 6
#[kani::proof]
#[kani::unwind(6)]
#[kani::stub(alloc::vec::Vec::try_reserve_exact, mon_reserve_limit_0)]
fn k11_announce_string_4() {
    announce_too_much!(4, 4, String, 1)
}

//@ prop: C11
//@ family: K11-announce
//@ tier: thorough
//@ functions: <String as DecodeFrom>::decode_from
//@ inst: Decoder<SliceInputSource>
//@ inputs: every 9-byte string starting with an 8-byte size form announcing >= 2 (up to 2^62-1), one byte behind it
//@ oracle: as k11_announce_string_4
//@ stubs: Vec::try_reserve_exact -> monitoring stub
//@ bound: unwind 6
#[kani::proof]
#[kani::unwind(6)]
#[kani::stub(alloc::vec::Vec::try_reserve_exact, mon_reserve_limit_1)]
fn k11_announce_string_9() {
    announce_too_much!(9, 8, String, 1)
}

//@ prop: C11
//@ family: K11-announce
//@ tier: quick
//@ functions: <Vec<u8> as DecodeFrom>::decode_from (reservation from the announced length, element loop)
//@ inst: Decoder<SliceInputSource>; T = u8
//@ inputs: every 6-byte string starting with a 4-byte size form announcing >= 3 elements (up to 2^30-1), two bytes behind it
//@ oracle: result is Err; largest reservation requested <= bytes remaining + 4096
//@ stubs: Vec::try_reserve_exact -> monitoring stub
//@ bound: unwind 5 (2 elements can be read before the buffer ends; the 3rd iteration must fail)
#[kani::proof]
#[kani::unwind(5)]
#[kani::stub(alloc::vec::Vec::try_reserve_exact, mon_reserve_limit_2)]
fn k11_announce_vec_u8_6() {
    announce_too_much!(6, 4, Vec<u8>, 1)
}

//@ prop: C11
//@ family: K11-announce
//@ tier: thorough
//@ functions: <Vec<u16> as DecodeFrom>::decode_from
//@ inst: Decoder<SliceInputSource>; T = u16
//@ inputs: every 8-byte string that is an 8-byte size form announcing >= 1 element (up to 2^62-1)
//@ oracle: result is Err; largest reservation requested <= (bytes remaining + 4096) elements
//@ stubs: Vec::try_reserve_exact -> monitoring stub
//@ bound: unwind 4
#[kani::proof]
#[kani::unwind(4)]
#[kani::stub(alloc::vec::Vec::try_reserve_exact, mon_reserve_limit_0)]
fn k11_announce_vec_u16_8() {
    announce_too_much!(8, 8, Vec<u16>, 2)
}

//@ prop: C11
//@ family: K11-announce
//@ tier: quick
//@ functions: <BTreeMap<u8,u8> as DecodeFrom>::decode_from (entry loop; any staging allocation sized from the announced count)
//@ inst: Decoder<SliceInputSource>; K = V = u8
//@ inputs: the 4-byte strings [0xFE, b1, b2, b3] for all bytes b1..b3: a 4-byte size form announcing 63 + 64*m entries (m any 24-bit value, up to 2^30-1) with nothing behind it; the first byte is concrete because BTreeMap code behind a symbolic size form exhausts 12 GB
//@ oracle: result is Err; largest reservation requested through Vec::try_reserve_exact (monitoring stub; counting allocator in the native replay) <= (bytes remaining + 4096) entries
//@ stubs: Vec::try_reserve_exact -> monitoring stub
//@ bound: unwind 2 (the first iteration of the entry loop must fail)
//@ timeout: 900
#[kani::proof]
#[kani::unwind(2)]
#[kani::stub(alloc::vec::Vec::try_reserve_exact, mon_reserve_limit_0)]
fn k11_announce_btree_4() {
    let mut buf: [u8; 4] = kani::any();
    buf[0] = 0xFE;
    let n = 63u64 + 64 * ((buf[1] as u64) | ((buf[2] as u64) << 8) | ((buf[3] as u64) << 16));
    monitor_reset();
    let mut dec: Decoder<SliceInputSource> = Decoder::from(&buf[..]);
    let r = dec.decode::<alloc::collections::BTreeMap<u8, u8>>();
    let req = monitor_largest_request_bytes();
    kani::cover!(n > 1_000_000, "announced size above 10^6 reachable");
    kani::cover!(n == 63, "smallest announced size reachable");
    check!(r.is_err(), "a collection announcing more elements than bytes remain never decodes");
    check!(req <= SLACK_BYTES * 2, "memory asked for is governed by the bytes present, not by the announced size");
    core::mem::forget(r);
}

fn stub_random_state() -> std::hash::RandomState {
    unsafe { core::mem::transmute::<(u64, u64), std::hash::RandomState>((0, 0)) }
}
/// Monitoring stub for HashMap::try_reserve: records the request (16 bytes per entry as a stand-in for the table's
/// per-entry cost) and reserves nothing; insertions grow the real table as they come.
fn mon_hashmap_try_reserve<K, V, S, A: core::alloc::Allocator>(_m: &mut std::collections::HashMap<K, V, S, A>, additional: usize) -> core::result::Result<(), TryReserveError> {
    let bytes = additional.saturating_mul(16);
    if bytes <= isize::MAX as usize {
        unsafe {
            if bytes > REQUESTED_BYTES_MAX {
                REQUESTED_BYTES_MAX = bytes;
            }
        }
    }
    Ok(())
}

//@ prop: C11
//@ family: K11-announce
//@ tier: quick
//@ functions: <HashMap<u8,u8> as DecodeFrom>::decode_from (reservation from the announced count)
//@ inst: Decoder<SliceInputSource>; K = V = u8, S = RandomState
//@ inputs: every 4-byte string that is a 4-byte size form announcing >= 1 entry (up to 2^30-1) with nothing behind it
//@ oracle: result is Err; entries requested through HashMap::try_reserve (monitoring stub; counting allocator in the native replay) <= bytes remaining + 4096
//@ stubs: HashMap::try_reserve -> monitoring stub (records, reserves nothing); std::hash::RandomState::new -> fixed keys (getrandom syscall)
//@ bound: unwind 4
//@ timeout: 900
#[kani::proof]
#[kani::unwind(4)]
#[kani::stub(std::collections::HashMap::try_reserve, mon_hashmap_try_reserve)]
#[kani::stub(std::hash::RandomState::new, stub_random_state)]
fn k11_announce_hashmap_4() {
    announce_too_much!(4, 4, std::collections::HashMap<u8, u8>, 16)
}

// ---- sequences: every byte string --------------------------------------------------------------------------
//@ prop: C11
//@ family: K11-seq
//@ tier: quick
//@ functions: <Vec<bool> as DecodeFrom>::decode_from, <bool as DecodeFrom>::decode_from
//@ inst: Decoder<SliceInputSource>; T = bool
//@ inputs: every byte string of length 4 with a one-byte size prefix announcing <= 3 elements
//@ oracle: Ok(v) iff every announced element byte is present and is 0 or 1; v[i] == (byte == 1); consumed == 1 + n; an element byte >= 2 or a missing element gives Err
//@ bound: unwind 6
#[kani::proof]
#[kani::unwind(6)]
fn k11_seq_bool_4() {
    let buf: [u8; 4] = kani::any();
    kani::assume(buf[0] & 3 == 0 && (buf[0] >> 2) <= 3);
    let n = (buf[0] >> 2) as usize;
    let mut dec: Decoder<SliceInputSource> = Decoder::from(&buf[..]);
    let r = dec.decode::<Vec<bool>>();
    let mut legal = true;
    let mut i = 0;
    while i < 3 {
        if i < n && buf[1 + i] > 1 {
            legal = false;
        }
        i += 1;
    }
    match &r {
        Ok(v) => {
            check!(legal, "an out-of-range bool inside a sequence is never accepted");
            check!(v.len() == n, "the sequence has the announced number of elements");
            let mut i = 0;
            while i < 3 {
                if i < n {
                    check!(v[i] == (buf[1 + i] == 1), "element i is decoded from byte 1 + i");
                }
                i += 1;
            }
            check!(dec.remaining() == 3 - n, "size prefix plus n bytes are consumed");
        }
        Err(_) => check!(!legal, "a complete sequence of legal bools always decodes"),
    }
    kani::cover!(r.is_ok() && n == 3, "3 elements accepted reachable");
    kani::cover!(r.is_err() && n == 3 && buf[1] <= 1 && buf[2] <= 1, "illegal third element rejected reachable");
    core::mem::forget(r);
}

//@ prop: C11
//@ family: K11-seq
//@ tier: thorough
//@ functions: <Vec<u16> as DecodeFrom>::decode_from, <u16 as DecodeFrom>::decode_from
//@ inst: Decoder<SliceInputSource>; T = u16
//@ inputs: every byte string of length 5 with a one-byte size prefix announcing <= 3 elements
//@ oracle: Ok(v) iff 2n <= 4; v[i] == LE of bytes 1+2i, 2+2i; consumed 1 + 2n; otherwise Err
//@ bound: unwind 5
#[kani::proof]
#[kani::unwind(5)]
fn k11_seq_u16_5() {
    let buf: [u8; 5] = kani::any();
    kani::assume(buf[0] & 3 == 0 && (buf[0] >> 2) <= 3);
    let n = (buf[0] >> 2) as usize;
    let mut dec: Decoder<SliceInputSource> = Decoder::from(&buf[..]);
    let r = dec.decode::<Vec<u16>>();
    match &r {
        Ok(v) => {
            check!(2 * n <= 4, "a sequence is returned only if all announced elements are present");
            check!(v.len() == n, "the sequence has the announced number of elements");
            if n >= 1 {
                check!(v[0] == (buf[1] as u16) | ((buf[2] as u16) << 8), "element 0 little endian");
            }
            if n >= 2 {
                check!(v[1] == (buf[3] as u16) | ((buf[4] as u16) << 8), "element 1 little endian");
            }
            check!(dec.remaining() == 4 - 2 * n, "size prefix plus 2n bytes are consumed");
        }
        Err(_) => check!(2 * n > 4, "a complete sequence always decodes"),
    }
    kani::cover!(r.is_ok() && n == 2, "2 elements accepted reachable");
    kani::cover!(r.is_err() && n == 3, "3 announced, 2 present rejected reachable");
    core::mem::forget(r);
}

// ---- skip_tagged_fields ---------------------------------------------------------------------------------------
macro_rules! skip_all {
    ($len:expr) => {{
    let buf: [u8; $len] = kani::any();
    let mut dec: Decoder<SliceInputSource> = Decoder::from(&buf[..]);
    let r = dec.skip_tagged_fields();
    let used = $len - dec.remaining();
    if r.is_ok() {
        check!(used >= 1, "an end marker was consumed");
        // the last tag read must have been -1: one of the four encodings of -1 ends exactly at `used`
        let one = buf[used - 1] == 0xFC;
        let two = used >= 2 && buf[used - 2] == 0xFD && buf[used - 1] == 0xFF;
        let four = used >= 4 && buf[used - 4] == 0xFE && buf[used - 3] == 0xFF && buf[used - 2] == 0xFF && buf[used - 1] == 0xFF;
        check!(one || two || four, "skipping stops only at a tag-end marker (-1)");
    }
    check!(used <= $len, "never consumes more than the buffer holds");
    kani::cover!(r.is_ok() && used == $len, "marker at the very end reachable");
    kani::cover!(r.is_ok() && used == 1, "immediate marker reachable");
    kani::cover!(r.is_err(), "error reachable");
    core::mem::forget(r);
    }};
}

//@ prop: C11
//@ family: K11-skip
//@ tier: quick
//@ functions: Decoder::skip_tagged_fields, Decoder::decode_varint::<i32>, Decoder::decode_size, SliceInputSource::read_byte_slice_exact
//@ inst: Decoder<SliceInputSource>
//@ inputs: every byte string of length 4
//@ oracle: terminates within the bound (each round consumes >= 2 bytes); Ok only if the bytes consumed end with an encoding of tag -1; never consumes more than the buffer; no panic, no read outside the slice
//@ bound: unwind 4 (unwinding assertion proves <= 3 rounds suffice for 4 bytes)
#[kani::proof]
#[kani::unwind(4)]
fn k11_skip_4() {
    skip_all!(4)
}

//@ prop: C11
//@ family: K11-skip
//@ tier: thorough
//@ timeout: 1200
//@ functions: Decoder::skip_tagged_fields, Decoder::decode_varint::<i32>, Decoder::decode_size, SliceInputSource::read_byte_slice_exact
//@ inst: Decoder<SliceInputSource>
//@ inputs: every byte string of length 6
//@ oracle: as k11_skip_4
//@ bound: unwind 5 (unwinding assertion proves <= 4 rounds suffice for 6 bytes)
#[kani::proof]
#[kani::unwind(5)]
fn k11_skip_6() {
    skip_all!(6)
}
