//@@ group: codec
//@@ target: slice-codec/src/decode_from.rs
//
// C11, dictionaries: EVERY byte string with a concrete announced entry count, decoded as BTreeMap<u8,u8>.
// The property: never panics, never accepts a dictionary with duplicate keys (nor silently merges them).
use super::*;
use crate::buffer::slice::SliceInputSource;
use crate::buffer::InputSource;
use alloc::collections::BTreeMap;

macro_rules! check {
    ($c:expr, $m:literal) => {
        kani::assert($c, $m)
    };
}

//@ prop: C11
//@ family: K11-dict
//@ tier: quick
//@ functions: <BTreeMap<u8,u8> as DecodeFrom>::decode_from, decode_dictionary_entries!, BTreeMap::insert
//@ inst: Decoder<SliceInputSource>; K = V = u8
//@ inputs: [1<<2, k, v, t] for all bytes k, v, t
//@ oracle: Ok(m) with m == {k: v}, 3 bytes consumed, trailing byte left; no panic
//@ bound: unwind 4; announced count concrete (1)
//@ timeout: 900
#[kani::proof]
#[kani::unwind(4)]
fn k11_dict_btree_1() {
    let mut buf: [u8; 4] = kani::any();
    buf[0] = 1 << 2;
    let mut dec: Decoder<SliceInputSource> = Decoder::from(&buf[..]);
    let r = dec.decode::<BTreeMap<u8, u8>>();
    kani::cover!(r.is_ok(), "accepted reachable");
    match &r {
        Ok(m) => {
            check!(m.len() == 1, "one entry announced, one entry decoded");
            check!(m.get(&buf[1]) == Some(&buf[2]), "the entry is (byte 1, byte 2)");
            check!(dec.remaining() == 1, "size prefix plus one entry consumed");
        }
        Err(_) => check!(false, "a complete single-entry dictionary always decodes"),
    }
    core::mem::forget(r);
}

//@ prop: C11
//@ family: K11-dict
//@ tier: quick
//@ functions: <BTreeMap<u8,u8> as DecodeFrom>::decode_from, decode_dictionary_entries! (duplicate-key arm), BTreeMap::insert
//@ inst: Decoder<SliceInputSource>; K = V = u8
//@ inputs: [2<<2, k0, v0, k1, v1] for all bytes k0, v0, k1, v1 (k0 == k1 included)
//@ oracle: no panic; Ok(m) only if k0 != k1, then m == {k0: v0, k1: v1} (len 2: a duplicate key is never accepted or silently merged) and everything consumed; k0 == k1 gives Err
//@ bound: unwind 4; announced count concrete (2)
//@ timeout: 1500
#[kani::proof]
#[kani::unwind(4)]
fn k11_dict_btree_2() {
    let mut buf: [u8; 5] = kani::any();
    buf[0] = 2 << 2;
    let mut dec: Decoder<SliceInputSource> = Decoder::from(&buf[..]);
    let r = dec.decode::<BTreeMap<u8, u8>>();
    kani::cover!(r.is_ok() && buf[1] > buf[3], "two entries in descending key order accepted reachable");
    kani::cover!(buf[1] == buf[3], "duplicate key input reachable");
    match &r {
        Ok(m) => {
            check!(buf[1] != buf[3], "a dictionary with duplicate keys is never accepted");
            check!(m.len() == 2, "two entries announced, two entries decoded (no silent merge)");
            check!(m.get(&buf[1]) == Some(&buf[2]) && m.get(&buf[3]) == Some(&buf[4]), "entries are (byte 1, byte 2) and (byte 3, byte 4)");
            check!(dec.remaining() == 0, "everything consumed");
        }
        Err(_) => check!(buf[1] == buf[3], "a complete dictionary with distinct keys always decodes"),
    }
    core::mem::forget(r);
}

//@ prop: C11
//@ family: K11-dict
//@ tier: thorough
//@ functions: <BTreeMap<u8,u8> as DecodeFrom>::decode_from
//@ inst: Decoder<SliceInputSource>; K = V = u8
//@ inputs: [2<<2, k0, v0, k1] for all bytes (second entry truncated)
//@ oracle: Err, no panic (the partially built map is dropped cleanly)
//@ bound: unwind 4
//@ timeout: 1500
#[kani::proof]
#[kani::unwind(4)]
fn k11_dict_btree_trunc() {
    let mut buf: [u8; 4] = kani::any();
    buf[0] = 2 << 2;
    let mut dec: Decoder<SliceInputSource> = Decoder::from(&buf[..]);
    let r = dec.decode::<BTreeMap<u8, u8>>();
    kani::cover!(r.is_err(), "error reachable");
    check!(r.is_err(), "a truncated dictionary never decodes");
    core::mem::forget(r);
}
