//@@ group: codec
//@@ target: slice-codec/src/error.rs
//
// C11: "Every error it returns can be rendered as a message".  One harness per constructible ErrorKind /
// InvalidDataErrorKind variant, fields symbolic where they are scalars; the std errors wrapped by AllocationError /
// InvalidString are obtained from the real failing std calls.  Rendering goes through the real Display impls into a
// core::fmt::Write sink that discards the text; fmt::format is NOT stubbed here, rendering is the subject.
use super::*;
use core::fmt::Write;

macro_rules! check {
    ($c:expr, $m:literal) => {
        kani::assert($c, $m)
    };
}

struct Sink {
    bytes: usize,
}
impl Write for Sink {
    fn write_str(&mut self, s: &str) -> core::fmt::Result {
        self.bytes = self.bytes.wrapping_add(s.len());
        Ok(())
    }
}

fn render(e: &Error) -> bool {
    let mut sink = Sink { bytes: 0 };
    let r = write!(sink, "{}", e);
    r.is_ok() && sink.bytes > 0
}

//@ prop: C11
//@ family: K11-display
//@ tier: thorough
//@ functions: <Error as Display>::fmt, <ErrorKind as Display>::fmt (UnexpectedEob, InvalidReservation arms)
//@ inst: core::fmt::Write sink discarding text
//@ inputs: UnexpectedEob{requested, remaining} and InvalidReservation{buffer_len, start..end}, symbolic fields 0..=9
//@ oracle: rendering returns Ok and writes at least one byte; no panic
//@ bound: unwind 8 (integer formatting loops); field values < 10 to bound the digit loops
//@ timeout: 900
#[kani::proof]
#[kani::unwind(8)]
fn k11_display_eob_reservation() {
    let a: usize = kani::any();
    let b: usize = kani::any();
    kani::assume(a < 10 && b < 10);
    let which: bool = kani::any();
    let e = if which {
        Error::new(ErrorKind::UnexpectedEob { requested: a, remaining: b })
    } else {
        Error::new(ErrorKind::InvalidReservation { buffer_len: a, reserved_range: b..a })
    };
    kani::cover!(which, "UnexpectedEob reachable");
    kani::cover!(!which, "InvalidReservation reachable");
    check!(render(&e), "the error renders as a non-empty message");
    core::mem::forget(e);
}

//@ prop: C11
//@ family: K11-display
//@ tier: quick
//@ functions: <Error as Display>::fmt, <ErrorKind as Display>::fmt (AllocationLimitReached arm)
//@ inst: core::fmt::Write sink
//@ inputs: AllocationLimitReached{requested, remaining} with fields 0..=9
//@ oracle: rendering returns Ok and writes at least one byte; no panic (a todo!() arm is a panic)
//@ bound: unwind 8
//@ timeout: 900
#[kani::proof]
#[kani::unwind(8)]
fn k11_display_alloc_limit() {
    let a: usize = kani::any();
    let b: usize = kani::any();
    kani::assume(a < 10 && b < 10);
    let e = Error::new(ErrorKind::AllocationLimitReached { requested: a, remaining: b });
    kani::cover!(a == 9, "harness body reachable");
    check!(render(&e), "the error renders as a non-empty message");
    core::mem::forget(e);
}

//@ prop: C11
//@ family: K11-display
//@ tier: quick
//@ functions: <Error as Display>::fmt, <ErrorKind as Display>::fmt (AllocationError arm), From<TryReserveError> for Error
//@ inst: core::fmt::Write sink; TryReserveError obtained from Vec::<u8>::try_reserve(usize::MAX)
//@ inputs: the CapacityOverflow error produced by the real std call
//@ oracle: rendering returns Ok and writes at least one byte; no panic
//@ bound: unwind 8
//@ timeout: 900
#[kani::proof]
#[kani::unwind(8)]
fn k11_display_alloc_error() {
    let mut v: alloc::vec::Vec<u8> = alloc::vec::Vec::new();
    let tre = match v.try_reserve(usize::MAX) {
        Err(e) => e,
        Ok(()) => {
            kani::assume(false);
            unreachable!()
        }
    };
    let e: Error = tre.into();
    kani::cover!(true, "an AllocationError was obtained");
    // if the conversion ever maps to another kind this harness no longer renders the variant it is about: the witness
    // below then fails and the run is inconclusive - it is not a violation
    kani::assume(matches!(e.kind(), ErrorKind::AllocationError(_)));
    kani::cover!(true, "the error under test is an AllocationError");
    check!(render(&e), "the error renders as a non-empty message");
    core::mem::forget(e);
}

//@ prop: C11
//@ family: K11-display
//@ tier: quick
//@ functions: <Error as Display>::fmt, <InvalidDataErrorKind as Display>::fmt (InvalidString arm), From<FromUtf8Error> for Error
//@ inst: core::fmt::Write sink; FromUtf8Error obtained from String::from_utf8 on one invalid byte
//@ inputs: one arbitrary byte >= 0x80 (every invalid 1-byte string)
//@ oracle: rendering returns Ok and writes at least one byte; no panic
//@ bound: unwind 8
//@ timeout: 900
#[kani::proof]
#[kani::unwind(8)]
fn k11_display_invalid_string() {
    let b: u8 = kani::any();
    kani::assume(b >= 0x80);
    let mut v: alloc::vec::Vec<u8> = alloc::vec::Vec::with_capacity(1);
    v.push(b);
    let fue = match alloc::string::String::from_utf8(v) {
        Err(e) => e,
        Ok(s) => {
            core::mem::forget(s);
            kani::assume(false);
            unreachable!()
        }
    };
    let e: Error = fue.into();
    kani::cover!(b == 0xff, "an InvalidString error was obtained");
    kani::assume(matches!(e.kind(), ErrorKind::InvalidData(InvalidDataErrorKind::InvalidString(_))));
    kani::cover!(true, "the error under test is an InvalidString");
    check!(render(&e), "the error renders as a non-empty message");
    core::mem::forget(e);
}

//@ prop: C11
//@ family: K11-display
//@ tier: thorough
//@ functions: <InvalidDataErrorKind as Display>::fmt (IllegalValue, OutOfRange arms), From<TryFromIntError> for Error
//@ inst: core::fmt::Write sink
//@ inputs: IllegalValue{value: None | Some(-9..=9)}; OutOfRange{value, min, max in -9..=9}
//@ oracle: rendering returns Ok and writes at least one byte; no panic
//@ bound: unwind 12 (i128 formatting); values bounded to one digit
//@ timeout: 1200
#[kani::proof]
#[kani::unwind(12)]
fn k11_display_invalid_data() {
    let which: u8 = kani::any();
    kani::assume(which < 3);
    let x: i8 = kani::any();
    kani::assume(x > -10 && x < 10);
    let e: Error = if which == 0 {
        InvalidDataErrorKind::IllegalValue { desc: "d", value: None }.into()
    } else if which == 1 {
        InvalidDataErrorKind::IllegalValue { desc: "d", value: Some(x as i128) }.into()
    } else {
        InvalidDataErrorKind::OutOfRange { value: x as i128, min: -1, max: 1, typename: "t" }.into()
    };
    kani::cover!(which == 1 && x < 0, "IllegalValue with a negative value reachable");
    kani::cover!(which == 2, "OutOfRange reachable");
    check!(render(&e), "the error renders as a non-empty message");
    core::mem::forget(e);
}
