//@@ group: codec
//@@ target: slice-codec/src/decoding.rs
//
// C11 (and the decode half of C10): EVERY byte string of length 0..9 decoded as each primitive type.
// The buffer is a 9-byte array of arbitrary bytes followed in memory by nothing the decoder may touch: CBMC's
// pointer checks fail on any read outside the `len`-byte slice's backing object, and the oracle pins down which
// bytes the value is made of, so a read past `len` inside the backing array changes the result and is caught too.
use super::*;
use crate::buffer::slice::SliceInputSource;
use crate::buffer::InputSource;

macro_rules! check {
    ($c:expr, $m:literal) => {
        kani::assert($c, $m)
    };
}

fn le_u64(buf: &[u8; 9], w: usize) -> u64 {
    let mut x: u64 = 0;
    let mut i = 0;
    while i < 8 {
        if i < w {
            x |= (buf[i] as u64) << (8 * (i as u32));
        }
        i += 1;
    }
    x
}

// (which ErrorKind and which field values an error carries is not part of the property: only that it IS an error)

macro_rules! fixed_decode {
    ($t:ty, $n:expr, $to_bits:expr) => {{
        let buf: [u8; 9] = kani::any();
        let len: usize = kani::any();
        kani::assume(len <= 9);
        let mut dec: Decoder<SliceInputSource> = Decoder::from(&buf[..len]);
        let r = dec.decode::<$t>();
        let to_bits = $to_bits;
        match &r {
            Ok(v) => {
                check!(len >= $n, "a value is returned only if the buffer holds size_of::<T>() bytes");
                check!(to_bits(*v) == le_u64(&buf, $n), "the value is made of exactly the first size_of::<T>() bytes, little endian");
                check!(dec.remaining() == len - $n, "exactly size_of::<T>() bytes are consumed");
            }
            Err(_) => {
                check!(len < $n, "a long enough buffer always decodes (every bit pattern is a value)");
            }
        }
        kani::cover!(r.is_ok() && len == $n, "exact-length buffer reachable");
        kani::cover!(r.is_err() && len + 1 == $n, "one byte short reachable");
        core::mem::forget(r);
    }};
}

//@ prop: C11
//@ family: K11-prim
//@ tier: quick
//@ functions: <bool as DecodeFrom>::decode_from, decoding::illegal_bool_error, SliceInputSource::read_byte/peek_byte/does_buffer_have_at_least
//@ inst: Decoder<SliceInputSource>
//@ inputs: buf: [u8; 9] arbitrary, len in 0..=9
//@ oracle: Ok(b) iff len >= 1 and first byte in {0,1}, b == (byte == 1), 1 byte consumed; byte >= 2: an error; len 0: an error; no panic; no read outside the slice
//@ bound: unwind 11
#[kani::proof]
#[kani::unwind(11)]
fn k11_prim_bool() {
    let buf: [u8; 9] = kani::any();
    let len: usize = kani::any();
    kani::assume(len <= 9);
    let mut dec: Decoder<SliceInputSource> = Decoder::from(&buf[..len]);
    let r = dec.decode::<bool>();
    match &r {
        Ok(v) => {
            check!(len >= 1, "a bool is returned only from a non-empty buffer");
            check!(buf[0] <= 1, "an out-of-range bool (byte >= 2) is never accepted");
            check!(*v == (buf[0] == 1), "0 is false and 1 is true");
            check!(dec.remaining() == len - 1, "exactly one byte is consumed");
        }
        Err(_) => {
            if len != 0 {
                check!(buf[0] >= 2, "bytes 0 and 1 always decode");
            }
        }
    }
    kani::cover!(r.is_ok() && buf[0] == 1, "true reachable");
    kani::cover!(r.is_err() && len > 0 && buf[0] == 2, "illegal value 2 reachable");
    kani::cover!(r.is_err() && len == 0, "empty buffer reachable");
    core::mem::forget(r);
}

//@ prop: C11
//@ family: K11-prim
//@ tier: quick
//@ functions: <u8 as DecodeFrom>::decode_from, <i8 as DecodeFrom>::decode_from
//@ inst: Decoder<SliceInputSource>
//@ inputs: buf: [u8; 9] arbitrary, len in 0..=9
//@ oracle: Ok iff len >= 1, value == first byte, 1 consumed; else an error
//@ bound: unwind 11
#[kani::proof]
#[kani::unwind(11)]
fn k11_prim_u8_i8() {
    let which: bool = kani::any();
    if which {
        fixed_decode!(u8, 1, |x: u8| x as u64)
    } else {
        fixed_decode!(i8, 1, |x: i8| (x as u8) as u64)
    }
}

//@ prop: C11
//@ family: K11-prim
//@ tier: quick
//@ functions: <u16 as DecodeFrom>::decode_from, <i16 as DecodeFrom>::decode_from, SliceInputSource::read_bytes_exact::<2>, peek_bytes_exact_impl, peek_byte_slice_exact_impl
//@ inst: Decoder<SliceInputSource>
//@ inputs: buf: [u8; 9] arbitrary, len in 0..=9
//@ oracle: Ok iff len >= 2; value == LE of the first 2 bytes; 2 consumed; else an error
//@ bound: unwind 11
#[kani::proof]
#[kani::unwind(11)]
fn k11_prim_16() {
    let which: bool = kani::any();
    if which {
        fixed_decode!(u16, 2, |x: u16| x as u64)
    } else {
        fixed_decode!(i16, 2, |x: i16| (x as u16) as u64)
    }
}

//@ prop: C11
//@ family: K11-prim
//@ tier: quick
//@ functions: <u32 as DecodeFrom>::decode_from, <i32 as DecodeFrom>::decode_from, <f32 as DecodeFrom>::decode_from, read_bytes_exact::<4>
//@ inst: Decoder<SliceInputSource>
//@ inputs: buf: [u8; 9] arbitrary, len in 0..=9
//@ oracle: Ok iff len >= 4; bits == LE of the first 4 bytes; 4 consumed; else an error
//@ bound: unwind 11
#[kani::proof]
#[kani::unwind(11)]
fn k11_prim_32() {
    let which: u8 = kani::any();
    kani::assume(which < 3);
    if which == 0 {
        fixed_decode!(u32, 4, |x: u32| x as u64)
    } else if which == 1 {
        fixed_decode!(i32, 4, |x: i32| (x as u32) as u64)
    } else {
        fixed_decode!(f32, 4, |x: f32| x.to_bits() as u64)
    }
}

//@ prop: C11
//@ family: K11-prim
//@ tier: quick
//@ functions: <u64 as DecodeFrom>::decode_from, <i64 as DecodeFrom>::decode_from, <f64 as DecodeFrom>::decode_from, read_bytes_exact::<8>
//@ inst: Decoder<SliceInputSource>
//@ inputs: buf: [u8; 9] arbitrary, len in 0..=9
//@ oracle: Ok iff len >= 8; bits == LE of the first 8 bytes; 8 consumed; else an error
//@ bound: unwind 11
#[kani::proof]
#[kani::unwind(11)]
fn k11_prim_64() {
    let which: u8 = kani::any();
    kani::assume(which < 3);
    if which == 0 {
        fixed_decode!(u64, 8, |x: u64| x)
    } else if which == 1 {
        fixed_decode!(i64, 8, |x: i64| x as u64)
    } else {
        fixed_decode!(f64, 8, |x: f64| x.to_bits())
    }
}

// ---- variable-width integers decoded from arbitrary bytes into every target type -----------------------------
fn width_of(first: u8) -> usize {
    match first & 3 {
        0 => 1,
        1 => 2,
        2 => 4,
        _ => 8,
    }
}

/// reference value of a varint: little-endian number of `w` bytes, sign-extended, arithmetic shift right by 2
fn ref_varint_value(buf: &[u8; 9], w: usize) -> i64 {
    let raw = le_u64(buf, w);
    let sh = 64 - 8 * (w as u32);
    (((raw << sh) as i64) >> sh) >> 2
}

fn ref_varuint_value(buf: &[u8; 9], w: usize) -> u64 {
    le_u64(buf, w) >> 2
}

macro_rules! varint_decode {
    ($t:ty, $min:expr, $max:expr) => {{
        let buf: [u8; 9] = kani::any();
        let len: usize = kani::any();
        kani::assume(len <= 9);
        let mut dec: Decoder<SliceInputSource> = Decoder::from(&buf[..len]);
        let r = dec.decode_varint::<$t>();
        if len == 0 {
            match &r {
                Ok(_) => check!(false, "an empty buffer never decodes"),
                Err(_) => {}
            }
        } else {
            let w = width_of(buf[0]);
            let val: i64 = ref_varint_value(&buf, w);
            let fits = val >= ($min as i64) && val <= ($max as i64);
            match &r {
                Ok(v) => {
                    check!(len >= w, "a value is returned only if all bytes announced by the width code are present");
                    check!(fits, "a variable-width integer outside the target type's range is never accepted");
                    check!((*v as i64) == val, "the value is the sign-extended little-endian number of width bytes, shifted right by two");
                    check!(dec.remaining() == len - w, "exactly width bytes are consumed");
                }
                Err(_) => {
                    if len < w {
                            } else {
                        check!(!fits, "a complete varint inside the target range always decodes");
                    }
                }
            }
            kani::cover!(r.is_ok() && w == 8, "8-byte form accepted reachable");
            kani::cover!(r.is_ok() && w == 1 && val < 0, "negative 1-byte form reachable");
            kani::cover!(r.is_err() && len < w, "truncated form reachable");
        }
        core::mem::forget(r);
    }};
}

macro_rules! varuint_decode {
    ($t:ty, $max:expr) => {{
        let buf: [u8; 9] = kani::any();
        let len: usize = kani::any();
        kani::assume(len <= 9);
        let mut dec: Decoder<SliceInputSource> = Decoder::from(&buf[..len]);
        let r = dec.decode_varuint::<$t>();
        if len == 0 {
            match &r {
                Ok(_) => check!(false, "an empty buffer never decodes"),
                Err(_) => {}
            }
        } else {
            let w = width_of(buf[0]);
            let val: u64 = ref_varuint_value(&buf, w);
            let fits = val <= ($max as u64);
            match &r {
                Ok(v) => {
                    check!(len >= w, "a value is returned only if all bytes announced by the width code are present");
                    check!(fits, "a variable-width integer outside the target type's range is never accepted");
                    check!((*v as u64) == val, "the value is the little-endian number of width bytes, shifted right by two");
                    check!(dec.remaining() == len - w, "exactly width bytes are consumed");
                }
                Err(_) => {
                    if len < w {
                            } else {
                        check!(!fits, "a complete varuint inside the target range always decodes");
                    }
                }
            }
            kani::cover!(r.is_ok() && w == 8, "8-byte form accepted reachable");
            kani::cover!(r.is_ok() && w == 2, "2-byte form reachable");
            kani::cover!(r.is_err() && len < w, "truncated form reachable");
        }
        core::mem::forget(r);
    }};
}

//@ prop: C11 C10
//@ family: K11-varint
//@ tier: quick
//@ functions: Decoder::decode_varint::<i32>, decoding::varint_range_error::<i32>, <i8|i16|i32|i64 as DecodeFrom>::decode_from
//@ inst: Decoder<SliceInputSource>, T = i32 (tags, discriminants)
//@ inputs: buf: [u8; 9] arbitrary, len in 0..=9
//@ oracle: Ok(x) iff len >= width(first byte & 3) and the reference value (LE, sign-extended, >> 2) lies in i32; then x == value and width bytes consumed; truncated: an error; outside the target range: an error
//@ bound: unwind 11
#[kani::proof]
#[kani::unwind(11)]
fn k11_varint_i32() {
    varint_decode!(i32, i32::MIN, i32::MAX)
}

//@ prop: C11 C10
//@ family: K11-varint
//@ tier: quick
//@ functions: Decoder::decode_varint::<i64>
//@ inst: Decoder<SliceInputSource>, T = i64
//@ inputs: buf: [u8; 9] arbitrary, len in 0..=9
//@ oracle: as k11_varint_i32; every complete varint fits i64
//@ bound: unwind 11
#[kani::proof]
#[kani::unwind(11)]
fn k11_varint_i64() {
    varint_decode!(i64, i64::MIN, i64::MAX)
}

//@ prop: C11 C10
//@ family: K11-varint
//@ tier: thorough
//@ functions: Decoder::decode_varint::<i16>, Decoder::decode_varint::<i8>
//@ inst: Decoder<SliceInputSource>, T = i16 | i8
//@ inputs: buf: [u8; 9] arbitrary, len in 0..=9
//@ oracle: as k11_varint_i32 with the narrower range
//@ bound: unwind 11
#[kani::proof]
#[kani::unwind(11)]
fn k11_varint_i16_i8() {
    let which: bool = kani::any();
    if which {
        varint_decode!(i16, i16::MIN, i16::MAX)
    } else {
        varint_decode!(i8, i8::MIN, i8::MAX)
    }
}

//@ prop: C11 C10
//@ family: K11-varint
//@ tier: quick
//@ functions: Decoder::decode_varuint::<u32>, decoding::varuint_range_error::<u32>, <u8|u16|u32|u64 as DecodeFrom>::decode_from
//@ inst: Decoder<SliceInputSource>, T = u32
//@ inputs: buf: [u8; 9] arbitrary, len in 0..=9
//@ oracle: Ok(x) iff complete and reference value (LE >> 2) <= u32::MAX; x == value; width consumed; truncated: an error; outside the target range: an error
//@ bound: unwind 11
#[kani::proof]
#[kani::unwind(11)]
fn k11_varuint_u32() {
    varuint_decode!(u32, u32::MAX)
}

//@ prop: C11 C10
//@ family: K11-varint
//@ tier: quick
//@ functions: Decoder::decode_size, Decoder::decode_varuint::<usize>, Decoder::decode_varuint::<u64>
//@ inst: Decoder<SliceInputSource>, T = usize | u64
//@ inputs: buf: [u8; 9] arbitrary, len in 0..=9
//@ oracle: as k11_varuint_u32; every complete varuint fits
//@ bound: unwind 11
#[kani::proof]
#[kani::unwind(11)]
fn k11_varuint_usize_u64() {
    let which: bool = kani::any();
    if which {
        varuint_decode!(usize, usize::MAX)
    } else {
        varuint_decode!(u64, u64::MAX)
    }
}

//@ prop: C11 C10
//@ family: K11-varint
//@ tier: thorough
//@ functions: Decoder::decode_varuint::<u16>, Decoder::decode_varuint::<u8>
//@ inst: Decoder<SliceInputSource>, T = u16 | u8
//@ inputs: buf: [u8; 9] arbitrary, len in 0..=9
//@ oracle: as k11_varuint_u32 with the narrower range
//@ bound: unwind 11
#[kani::proof]
#[kani::unwind(11)]
fn k11_varuint_u16_u8() {
    let which: bool = kani::any();
    if which {
        varuint_decode!(u16, u16::MAX)
    } else {
        varuint_decode!(u8, u8::MAX)
    }
}
