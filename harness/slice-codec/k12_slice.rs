//@@ group: codec
//@@ target: slice-codec/src/buffer/slice.rs
//
// C12 for SliceOutputTarget / SliceInputSource.  The harness is a child module of buffer::slice, so it builds
// arbitrary *states* from the private fields (pos, Reservation's range) instead of reaching them through histories:
// one operation from an arbitrary state satisfying the representation invariant (pos <= len) is an inductive step
// that covers histories of any length; K12-hist cross-checks that fresh targets only reach such states.
// The reference model is an append-only log: an array `model` and a length `mpos`.
use super::*;

macro_rules! check {
    ($c:expr, $m:literal) => {
        kani::assert($c, $m)
    };
}

const BACK: usize = 6; // backing array; the target sees only the first `cap` bytes, the rest are guard bytes

fn same(a: &[u8; BACK], b: &[u8; BACK]) -> bool {
    let mut i = 0;
    let mut ok = true;
    while i < BACK {
        if a[i] != b[i] {
            ok = false;
        }
        i += 1;
    }
    ok
}

/// One arbitrary operation applied to the real target and to the model; returns false if the real target
/// disagreed with the model in result kind (Ok/Err).  `res` is an arbitrary (not necessarily valid) reservation.
fn step(t: &mut SliceOutputTarget, model: &mut [u8; BACK], mpos: &mut usize, cap: usize, res: &mut Reservation) {
    let op: u8 = kani::any();
    kani::assume(op < 4);
    let k: usize = kani::any();
    kani::assume(k <= 3);
    let data: [u8; 3] = kani::any();
    if op == 0 {
        let r = t.write_byte(data[0]);
        if *mpos + 1 <= cap {
            check!(r.is_ok(), "write_byte succeeds when a byte is free");
            model[*mpos] = data[0];
            *mpos += 1;
        } else {
            match &r {
                Ok(()) => check!(false, "write_byte on a full target must fail"),
                Err(_) => {}
            }
        }
        core::mem::forget(r);
    } else if op == 1 {
        let r = t.write_bytes_exact(&data[..k]);
        if *mpos + k <= cap {
            check!(r.is_ok(), "write_bytes_exact succeeds when k bytes are free");
            let mut i = 0;
            while i < 3 {
                if i < k {
                    model[*mpos + i] = data[i];
                }
                i += 1;
            }
            *mpos += k;
        } else {
            check!(r.is_err(), "write_bytes_exact that does not fit must fail");
        }
        core::mem::forget(r);
    } else if op == 2 {
        let r = t.reserve_space(k);
        match r {
            Ok(new_res) => {
                check!(*mpos + k <= cap, "reserve_space that does not fit must fail");
                check!(new_res.0.start == *mpos && new_res.0.end == *mpos + k, "a reservation claims exactly the next k bytes");
                *mpos += k; // fixed-slice target: reserved bytes keep their old content
                *res = new_res;
            }
            Err(e) => {
                check!(*mpos + k > cap, "reserve_space succeeds when k bytes are free");
                core::mem::forget(e);
            }
        }
    } else {
        let (a, b) = (res.0.start, res.0.end);
        let r = t.write_bytes_into_reserved_exact(res, &data[..k]);
        // A reservation this target can have issued lies inside the bytes already claimed: a <= b <= position.  Writing
        // into such a reservation must succeed when the bytes fit.  A forged reservation (inverted, past the capacity, or
        // reaching into the not-yet-claimed space) may be refused or - if it lies inside the buffer - honoured; either way
        // the effects must be exactly the model's.
        let issued = a <= b && b <= *mpos;
        let in_buffer = a <= b && b <= cap;
        if issued && b - a >= k {
            check!(r.is_ok(), "a write that fits a reservation issued by this target succeeds");
        }
        if r.is_ok() {
            check!(in_buffer && b - a >= k, "a write outside / beyond the reservation must fail");
            let mut i = 0;
            while i < 3 {
                if i < k {
                    model[a + i] = data[i];
                }
                i += 1;
            }
            check!(res.0.start == a + k && res.0.end == b, "the reservation shrinks from the front by k");
        } else {
            check!(res.0.start == a && res.0.end == b, "a failed reserved write leaves the reservation unchanged");
        }
        core::mem::forget(r);
    }
}

//@ prop: C12
//@ family: K12-step-slice
//@ tier: quick
//@ functions: SliceOutputTarget::{write_byte, write_bytes_exact, reserve_space, write_bytes_into_reserved_exact, remaining, does_buffer_have_at_least}, Reservation
//@ inst: SliceOutputTarget over &mut [u8] of logical capacity 0..=4 inside a 6-byte backing array
//@ inputs: arbitrary backing bytes, cap in 0..=4, arbitrary pos <= cap (representation invariant), arbitrary Reservation(a..b) with a, b in 0..=7 (invalid ones included), one arbitrary operation with k in 0..=3 and arbitrary data
//@ oracle: append-only-log model: Ok/Err as the model says; on Err nothing changes; afterwards every backing byte equals the model (so bytes outside [pos,pos+k) resp. outside the reservation, and the guard bytes, are untouched); pos == model length <= cap (invariant re-established); remaining() == cap - pos; CBMC pointer checks on every unchecked access
//@ bound: unwind 8 (6-byte compare loops); capacity <= 4, k <= 3
#[kani::proof]
#[kani::unwind(8)]
fn k12_step_slice() {
    let mut back: [u8; BACK] = kani::any();
    let cap: usize = kani::any();
    kani::assume(cap <= 4);
    let pos: usize = kani::any();
    kani::assume(pos <= cap);
    let a: usize = kani::any();
    let b: usize = kani::any();
    kani::assume(a <= 7 && b <= 7);
    let mut model = back;
    let mut mpos = pos;
    let mut res = Reservation(a..b);
    {
        let mut t = SliceOutputTarget { buffer: &mut back[..cap], pos };
        step(&mut t, &mut model, &mut mpos, cap, &mut res);
        check!(t.pos == mpos, "position equals the model's log length");
        check!(t.pos <= cap, "representation invariant pos <= capacity is re-established");
        check!(t.remaining() == cap - mpos, "remaining() is capacity minus position");
    }
    check!(same(&back, &model), "contents equal the append-only log; every other byte (incl. guard bytes) untouched");
    kani::cover!(mpos == pos + 3, "a 3-byte append reachable");
    kani::cover!(mpos == pos && cap == pos, "operation on a full target reachable");
    kani::cover!(a > b, "inverted reservation reachable");
    kani::cover!(b > cap && a <= b && b <= BACK, "reservation reaching into the guard bytes reachable");
}

//@ prop: C12
//@ family: K12-hist-slice
//@ tier: quick
//@ functions: From<&mut [u8]> for SliceOutputTarget, SliceOutputTarget::{write_byte, write_bytes_exact, reserve_space, write_bytes_into_reserved_exact}
//@ inst: SliceOutputTarget, fresh target of capacity 0..=4
//@ inputs: every history of 3 operations, each arbitrary in {write byte, write k bytes, reserve k, write k bytes into the most recent reservation (initially an arbitrary one)}, k in 0..=3, arbitrary data
//@ oracle: lock-step with the append-only-log model after every operation (as K12-step-slice)
//@ bound: unwind 8; 3 operations; capacity <= 4
#[kani::proof]
#[kani::unwind(8)]
fn k12_hist_slice_3() {
    let mut back: [u8; BACK] = kani::any();
    let cap: usize = kani::any();
    kani::assume(cap <= 4);
    let mut model = back;
    let mut mpos = 0usize;
    let a: usize = kani::any();
    let b: usize = kani::any();
    kani::assume(a <= 7 && b <= 7);
    let mut res = Reservation(a..b);
    {
        let mut t = SliceOutputTarget::from(&mut back[..cap]);
        let mut n = 0;
        while n < 3 {
            step(&mut t, &mut model, &mut mpos, cap, &mut res);
            check!(t.pos == mpos && t.pos <= cap, "position equals the model's log length and stays within capacity");
            n += 1;
        }
    }
    check!(same(&back, &model), "contents equal the append-only log; every other byte untouched");
    kani::cover!(mpos == 4 && cap == 4, "target filled exactly reachable");
}

//@ prop: C12
//@ family: K12-hist-slice
//@ tier: thorough
//@ functions: as k12_hist_slice_3
//@ inst: SliceOutputTarget, fresh target of capacity 0..=4
//@ inputs: every history of 4 operations
//@ oracle: as k12_hist_slice_3
//@ bound: unwind 8; 4 operations
//@ timeout: 2400
#[kani::proof]
#[kani::unwind(8)]
fn k12_hist_slice_4() {
    let mut back: [u8; BACK] = kani::any();
    let cap: usize = kani::any();
    kani::assume(cap <= 4);
    let mut model = back;
    let mut mpos = 0usize;
    let a: usize = kani::any();
    let b: usize = kani::any();
    kani::assume(a <= 7 && b <= 7);
    let mut res = Reservation(a..b);
    {
        let mut t = SliceOutputTarget::from(&mut back[..cap]);
        let mut n = 0;
        while n < 4 {
            step(&mut t, &mut model, &mut mpos, cap, &mut res);
            check!(t.pos == mpos && t.pos <= cap, "position equals the model's log length and stays within capacity");
            n += 1;
        }
    }
    check!(same(&back, &model), "contents equal the append-only log; every other byte untouched");
    kani::cover!(mpos == 4 && cap == 4, "target filled exactly reachable");
}

//@ prop: C12
//@ family: K12-hist-slice
//@ tier: thorough
//@ functions: as k12_hist_slice_3
//@ inst: SliceOutputTarget, fresh target of capacity 0..=4
//@ inputs: every history of 5 operations (the length the property's quantifier names)
//@ oracle: as k12_hist_slice_3
//@ bound: unwind 8; 5 operations
//@ timeout: 3000
#[kani::proof]
#[kani::unwind(8)]
fn k12_hist_slice_5() {
    let mut back: [u8; BACK] = kani::any();
    let cap: usize = kani::any();
    kani::assume(cap <= 4);
    let mut model = back;
    let mut mpos = 0usize;
    let a: usize = kani::any();
    let b: usize = kani::any();
    kani::assume(a <= 7 && b <= 7);
    let mut res = Reservation(a..b);
    {
        let mut t = SliceOutputTarget::from(&mut back[..cap]);
        let mut n = 0;
        while n < 5 {
            step(&mut t, &mut model, &mut mpos, cap, &mut res);
            check!(t.pos == mpos && t.pos <= cap, "position equals the model's log length and stays within capacity");
            n += 1;
        }
    }
    check!(same(&back, &model), "contents equal the append-only log; every other byte untouched");
    kani::cover!(mpos == 4 && cap == 4, "target filled exactly reachable");
}

//@ prop: C12
//@ family: K12-hist-slice
//@ tier: thorough
//@ functions: as k12_hist_slice_3
//@ inst: SliceOutputTarget, fresh target of capacity 0..=4
//@ inputs: every history of 7 operations
//@ oracle: as k12_hist_slice_3
//@ bound: unwind 9; 7 operations
//@ timeout: 3600
#[kani::proof]
#[kani::unwind(9)]
fn k12_hist_slice_7() {
    let mut back: [u8; BACK] = kani::any();
    let cap: usize = kani::any();
    kani::assume(cap <= 4);
    let mut model = back;
    let mut mpos = 0usize;
    let a: usize = kani::any();
    let b: usize = kani::any();
    kani::assume(a <= 7 && b <= 7);
    let mut res = Reservation(a..b);
    {
        let mut t = SliceOutputTarget::from(&mut back[..cap]);
        let mut n = 0;
        while n < 7 {
            step(&mut t, &mut model, &mut mpos, cap, &mut res);
            check!(t.pos == mpos && t.pos <= cap, "position equals the model's log length and stays within capacity");
            n += 1;
        }
    }
    check!(same(&back, &model), "contents equal the append-only log; every other byte untouched");
    kani::cover!(mpos == 4 && cap == 4, "target filled exactly reachable");
}

// ---- input source -----------------------------------------------------------------------------------------------
// (which ErrorKind and which field values an error carries is not part of the property: only that it IS an error)

macro_rules! exact_n {
    ($s:ident, $back:ident, $len:ident, $pos:ident, $peek:expr, $n:expr) => {{
        let r = if $peek { $s.peek_bytes_exact::<$n>().map(|x| *x) } else { $s.read_bytes_exact::<$n>().map(|x| *x) };
        match &r {
            Ok(bytes) => {
                check!($pos + $n <= $len, "bytes are returned only if they lie inside the buffer");
                let mut i = 0;
                while i < $n {
                    check!(bytes[i] == $back[$pos + i], "the bytes returned are buffer[pos..pos+N]");
                    i += 1;
                }
                check!($s.pos == if $peek { $pos } else { $pos + $n }, "peek leaves the position, read advances it by N");
            }
            Err(_) => {
                check!($pos + $n > $len, "a request that fits always succeeds");
                check!($s.pos == $pos, "a failed request consumes nothing");
            }
        }
        core::mem::forget(r);
    }};
}

//@ prop: C12
//@ family: K12-step-input
//@ tier: quick
//@ functions: SliceInputSource::{peek_byte, read_byte, peek_bytes_exact::<1|2|4|8>, read_bytes_exact::<1|2|4|8>, peek_byte_slice_exact, read_byte_slice_exact, read_bytes_into_exact, remaining, does_buffer_have_at_least, peek_bytes_exact_impl, peek_byte_slice_exact_impl}
//@ inst: SliceInputSource over &[u8] of length 0..=6 inside an 8-byte backing array
//@ inputs: arbitrary backing bytes, len in 0..=6, arbitrary pos <= len, one arbitrary operation (peek or read; byte, N in {1,2,4,8}, slice of k in 0..=7, copy into a k-byte destination)
//@ oracle: bytes yielded == buffer[pos..pos+k] and never anything at or behind index len; peeks leave pos; reads advance by k; a request that does not fit gives an error and leaves pos; remaining() == len - pos
//@ bound: unwind 10
#[kani::proof]
#[kani::unwind(10)]
fn k12_step_input() {
    let back: [u8; 8] = kani::any();
    let len: usize = kani::any();
    kani::assume(len <= 6);
    let pos: usize = kani::any();
    kani::assume(pos <= len);
    let mut s = SliceInputSource { buffer: &back[..len], pos };
    check!(s.remaining() == len - pos, "remaining() is length minus position");
    let op: u8 = kani::any();
    kani::assume(op < 7);
    let peek: bool = kani::any();
    if op == 0 {
        let r = if peek { s.peek_byte() } else { s.read_byte() };
        match &r {
            Ok(b) => {
                check!(pos < len, "a byte is returned only if one is left");
                check!(*b == back[pos], "the byte returned is buffer[pos]");
                check!(s.pos == if peek { pos } else { pos + 1 }, "peek leaves the position, read advances it by one");
            }
            Err(_) => {
                check!(pos == len, "a byte is available whenever pos < len");
                check!(s.pos == pos, "a failed request consumes nothing");
            }
        }
        core::mem::forget(r);
    } else if op == 1 {
        exact_n!(s, back, len, pos, peek, 1)
    } else if op == 2 {
        exact_n!(s, back, len, pos, peek, 2)
    } else if op == 3 {
        exact_n!(s, back, len, pos, peek, 4)
    } else if op == 4 {
        exact_n!(s, back, len, pos, peek, 8)
    } else if op == 5 {
        let k: usize = kani::any();
        kani::assume(k <= 7);
        let mut copy = [0u8; 7];
        let mut got = 0usize;
        let r = if peek { s.peek_byte_slice_exact(k) } else { s.read_byte_slice_exact(k) };
        let ok = match &r {
            Ok(sl) => {
                got = sl.len();
                let mut i = 0;
                while i < 7 {
                    if i < sl.len() {
                        copy[i] = sl[i];
                    }
                    i += 1;
                }
                true
            }
            Err(_) => false,
        };
        core::mem::forget(r);
        if ok {
            check!(pos + k <= len, "a slice is returned only if it lies inside the buffer");
            check!(got == k, "the slice has exactly the requested length");
            let mut i = 0;
            while i < 7 {
                if i < k {
                    check!(copy[i] == back[pos + i], "the slice is buffer[pos..pos+k]");
                }
                i += 1;
            }
            check!(s.pos == if peek { pos } else { pos + k }, "peek leaves the position, read advances it by k");
        } else {
            check!(pos + k > len, "a request that fits always succeeds");
            check!(s.pos == pos, "a failed request consumes nothing");
        }
    } else {
        let k: usize = kani::any();
        kani::assume(k <= 7);
        let fill: u8 = kani::any();
        let mut dst = [fill; 8];
        let r = s.read_bytes_into_exact(&mut dst[..k]);
        if r.is_ok() {
            check!(pos + k <= len, "bytes are copied only if they lie inside the buffer");
            let mut i = 0;
            while i < 8 {
                if i < k {
                    check!(dst[i] == back[pos + i], "destination receives buffer[pos..pos+k]");
                } else {
                    check!(dst[i] == fill, "nothing is written behind the destination slice");
                }
                i += 1;
            }
            check!(s.pos == pos + k, "read advances the position by k");
        } else {
            check!(pos + k > len, "a request that fits always succeeds");
            check!(s.pos == pos, "a failed request consumes nothing");
            let mut i = 0;
            while i < 8 {
                check!(dst[i] == fill, "a failed copy leaves the destination untouched");
                i += 1;
            }
        }
        core::mem::forget(r);
    }
    kani::cover!(op == 4 && !peek && pos == 0 && len == 6, "8-byte read from a 6-byte buffer reachable");
    kani::cover!(op == 6 && pos + 3 == len, "copy of the last bytes reachable");
    kani::cover!(op == 5 && peek && pos == len, "peek at the end reachable");
}
