//@@ group: codec
//@@ target: slice-codec/src/buffer/vec.rs
//
// C12 for VecOutputTarget (growable): lock-step with an append-only-log model in which a reservation appends k zero
// bytes.  The vector starts with a concrete-choice capacity 0..=3 and 0..=capacity arbitrary bytes already in it, so
// both the in-capacity paths and the reallocating paths (try_reserve -> grow) are taken; earlier bytes must survive.
use super::*;

macro_rules! check {
    ($c:expr, $m:literal) => {
        kani::assert($c, $m)
    };
}

const MODEL: usize = 15;

// Native replay only (cfg(test)): CBMC's pointer checks report a write past the end of the vector's allocation, which a
// native run performs silently; the guard-padding allocator in k11_coll.rs (one #[global_allocator] per crate) makes the
// replayed counterexample observable, so that such a counterexample is confirmed instead of ending as "not reproduced".
#[cfg(test)]
extern "Rust" {
    fn verif_guards_intact() -> bool;
}
fn native_heap_intact() -> bool {
    #[cfg(test)]
    {
        return unsafe { verif_guards_intact() };
    }
    #[allow(unreachable_code)]
    true
}

fn make_vec(capsel: u8, init: &[u8; 3], len0: usize) -> Vec<u8> {
    // concrete capacities (a symbolic allocation size is far more expensive for CBMC than a 4-way choice)
    let mut v: Vec<u8> = if capsel == 0 {
        Vec::new()
    } else if capsel == 1 {
        Vec::with_capacity(1)
    } else if capsel == 2 {
        Vec::with_capacity(2)
    } else {
        Vec::with_capacity(3)
    };
    let mut i = 0;
    while i < 3 {
        if i < len0 {
            v.push(init[i]); // len0 <= capacity: no growth here
        }
        i += 1;
    }
    v
}

fn step(t: &mut VecOutputTarget, model: &mut [u8; MODEL], mlen: &mut usize, res: &mut Reservation) {
    let op: u8 = kani::any();
    kani::assume(op < 4);
    let k: usize = kani::any();
    kani::assume(k <= 3);
    let data: [u8; 3] = kani::any();
    if op == 0 {
        let r = t.write_byte(data[0]);
        check!(r.is_ok(), "write_byte on a growable target succeeds (allocation failure is outside the model)");
        core::mem::forget(r);
        model[*mlen] = data[0];
        *mlen += 1;
    } else if op == 1 {
        let r = t.write_bytes_exact(&data[..k]);
        check!(r.is_ok(), "write_bytes_exact on a growable target succeeds");
        core::mem::forget(r);
        let mut i = 0;
        while i < 3 {
            if i < k {
                model[*mlen + i] = data[i];
            }
            i += 1;
        }
        *mlen += k;
    } else if op == 2 {
        let r = t.reserve_space(k);
        match r {
            Ok(new_res) => {
                check!(new_res.0.start == *mlen && new_res.0.end == *mlen + k, "a reservation claims exactly the next k bytes");
                let mut i = 0;
                while i < 3 {
                    if i < k {
                        model[*mlen + i] = 0; // growable target: reserved bytes are zeroed
                    }
                    i += 1;
                }
                *mlen += k;
                *res = new_res;
            }
            Err(e) => {
                core::mem::forget(e);
                check!(false, "reserve_space on a growable target succeeds");
            }
        }
    } else {
        let (a, b) = (res.0.start, res.0.end);
        let r = t.write_bytes_into_reserved_exact(res, &data[..k]);
        let valid = a <= b && b <= *mlen;
        if valid && b - a >= k {
            check!(r.is_ok(), "a write that fits a valid reservation succeeds");
            let mut i = 0;
            while i < 3 {
                if i < k {
                    model[a + i] = data[i];
                }
                i += 1;
            }
            check!(res.0.start == a + k && res.0.end == b, "the reservation shrinks from the front by k");
        } else {
            check!(r.is_err(), "a write outside / beyond the reservation must fail");
            check!(res.0.start == a && res.0.end == b, "a failed reserved write leaves the reservation unchanged");
        }
        core::mem::forget(r);
    }
}

fn agrees(v: &Vec<u8>, model: &[u8; MODEL], mlen: usize) -> bool {
    if v.len() != mlen {
        return false;
    }
    let mut ok = true;
    let mut i = 0;
    while i < MODEL {
        if i < mlen && v[i] != model[i] {
            ok = false;
        }
        i += 1;
    }
    ok
}

//@ prop: C12
//@ family: K12-step-vec
//@ tier: quick
//@ functions: VecOutputTarget::{write_byte, write_bytes_exact, reserve_space, write_bytes_into_reserved_exact, ensure_buffer_has_at_least, remaining}, Vec::try_reserve (real), Reservation
//@ inst: VecOutputTarget over a Vec<u8> of capacity 0..=3 holding 0..=capacity arbitrary bytes
//@ inputs: capacity choice, initial bytes, arbitrary Reservation(a..b) with a, b in 0..=7 (invalid ones included), one arbitrary operation with k in 0..=3 and arbitrary data
//@ oracle: append-only-log model: len grows by exactly k (0 for reserved writes), earlier bytes survive reallocation, reserved bytes read 0, reserved writes land front-to-back inside the reservation only, failed operations change nothing, remaining() == capacity - len
//@ bound: unwind 17 (15-byte model compare); capacity <= 3, k <= 3; allocation failure outside the model
//@ timeout: 1200
#[kani::proof]
#[kani::unwind(17)]
fn k12_step_vec() {
    let capsel: u8 = kani::any();
    kani::assume(capsel <= 3);
    let init: [u8; 3] = kani::any();
    let len0: usize = kani::any();
    kani::assume(len0 <= capsel as usize);
    let mut v = make_vec(capsel, &init, len0);
    let mut model = [0u8; MODEL];
    let mut i = 0;
    while i < 3 {
        if i < len0 {
            model[i] = init[i];
        }
        i += 1;
    }
    let mut mlen = len0;
    let a: usize = kani::any();
    let b: usize = kani::any();
    kani::assume(a <= 7 && b <= 7);
    let mut res = Reservation(a..b);
    {
        let mut t = VecOutputTarget::from(&mut v);
        step(&mut t, &mut model, &mut mlen, &mut res);
        check!(t.remaining() == t.buffer.capacity() - mlen, "remaining() is capacity minus length");
    }
    check!(agrees(&v, &model, mlen), "contents and length equal the append-only log");
    check!(v.capacity() >= v.len(), "capacity covers the length");
    kani::cover!(mlen == len0 + 3 && capsel == 0, "3-byte append into an unallocated vector reachable");
    kani::cover!(mlen == len0 + 2 && len0 == 3, "append forcing a reallocation of a full vector reachable");
    kani::cover!(a > b, "inverted reservation reachable");
    check!(native_heap_intact(), "no write went past the end of a heap allocation (native replay only; CBMC's pointer checks under Kani)");
    core::mem::forget(v);
}

//@ prop: C12
//@ family: K12-hist-vec
//@ tier: thorough
//@ functions: as k12_step_vec, From<&mut Vec<u8>> for VecOutputTarget
//@ inst: VecOutputTarget over a fresh Vec<u8> (capacity 0..=3, 0..=capacity initial bytes)
//@ inputs: every history of 3 arbitrary operations (reserved writes go to the most recent reservation, initially an arbitrary one)
//@ oracle: lock-step with the append-only-log model after every operation
//@ bound: unwind 17; 3 operations; final length <= 12
//@ timeout: 2400
#[kani::proof]
#[kani::unwind(17)]
fn k12_hist_vec_3() {
    let capsel: u8 = kani::any();
    kani::assume(capsel <= 3);
    let init: [u8; 3] = kani::any();
    let len0: usize = kani::any();
    kani::assume(len0 <= capsel as usize);
    let mut v = make_vec(capsel, &init, len0);
    let mut model = [0u8; MODEL];
    let mut i = 0;
    while i < 3 {
        if i < len0 {
            model[i] = init[i];
        }
        i += 1;
    }
    let mut mlen = len0;
    let a: usize = kani::any();
    let b: usize = kani::any();
    kani::assume(a <= 7 && b <= 7);
    let mut res = Reservation(a..b);
    {
        let mut t = VecOutputTarget::from(&mut v);
        let mut n = 0;
        while n < 3 {
            step(&mut t, &mut model, &mut mlen, &mut res);
            check!(agrees(t.buffer, &model, mlen), "contents and length equal the append-only log after every operation");
            n += 1;
        }
    }
    kani::cover!(mlen == 12, "longest history reachable");
    check!(native_heap_intact(), "no write went past the end of a heap allocation (native replay only; CBMC's pointer checks under Kani)");
    core::mem::forget(v);
}

//@ prop: C12
//@ family: K12-hist-vec
//@ tier: thorough
//@ functions: as k12_step_vec, From<&mut Vec<u8>> for VecOutputTarget
//@ inst: VecOutputTarget over a fresh, unallocated Vec<u8>
//@ inputs: every history of 4 arbitrary operations (reserved writes go to the most recent reservation, initially an arbitrary one)
//@ oracle: lock-step with the append-only-log model after every operation
//@ bound: unwind 17; 4 operations; final length <= 12
//@ timeout: 3400
#[kani::proof]
#[kani::unwind(17)]
fn k12_hist_vec_fresh_4() {
    let mut v: Vec<u8> = Vec::new();
    let mut model = [0u8; MODEL];
    let mut mlen = 0usize;
    let a: usize = kani::any();
    let b: usize = kani::any();
    kani::assume(a <= 7 && b <= 7);
    let mut res = Reservation(a..b);
    {
        let mut t = VecOutputTarget::from(&mut v);
        let mut n = 0;
        while n < 4 {
            step(&mut t, &mut model, &mut mlen, &mut res);
            check!(agrees(t.buffer, &model, mlen), "contents and length equal the append-only log after every operation");
            n += 1;
        }
    }
    kani::cover!(mlen == 12, "longest history reachable");
    check!(native_heap_intact(), "no write went past the end of a heap allocation (native replay only; CBMC's pointer checks under Kani)");
    core::mem::forget(v);
}

//@ prop: C12
//@ family: K12-hist-vec
//@ tier: thorough
//@ functions: as k12_step_vec, From<&mut Vec<u8>> for VecOutputTarget
//@ inst: VecOutputTarget over a fresh, unallocated Vec<u8>
//@ inputs: every history of 5 arbitrary operations (reserved writes go to the most recent reservation, initially an arbitrary one)
//@ oracle: lock-step with the append-only-log model after every operation
//@ bound: unwind 17; 5 operations; final length <= 15
//@ timeout: 3400
#[kani::proof]
#[kani::unwind(17)]
fn k12_hist_vec_fresh_5() {
    let mut v: Vec<u8> = Vec::new();
    let mut model = [0u8; MODEL];
    let mut mlen = 0usize;
    let a: usize = kani::any();
    let b: usize = kani::any();
    kani::assume(a <= 7 && b <= 7);
    let mut res = Reservation(a..b);
    {
        let mut t = VecOutputTarget::from(&mut v);
        let mut n = 0;
        while n < 5 {
            step(&mut t, &mut model, &mut mlen, &mut res);
            check!(agrees(t.buffer, &model, mlen), "contents and length equal the append-only log after every operation");
            n += 1;
        }
    }
    kani::cover!(mlen == 15, "longest history reachable");
    check!(native_heap_intact(), "no write went past the end of a heap allocation (native replay only; CBMC's pointer checks under Kani)");
    core::mem::forget(v);
}
