//@@ groups: slib sbin
//@@ append_to: slicec/src/ast/mod.rs
// Appended (to the scratch copy only, under cfg(kani)) next to Ast::create: an Ast without the 16 primitive entries,
// whose String-keyed hash-table insertions alone exhaust the symbolic-execution budget.  Harnesses that use it do
// not look anything up in the Ast.
#[cfg(kani)]
impl Ast {
    pub(crate) fn verif_empty() -> Ast {
        Ast { elements: Vec::new(), lookup_table: std::collections::HashMap::new() }
    }
}
