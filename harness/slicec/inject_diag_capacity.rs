//@@ groups: slibx
//@@ append_to: slicec/src/diagnostics/diagnostic.rs
// Appended (to the scratch copy only, under cfg(kani)): a Diagnostics container whose vector is pre-sized.  With
// Diagnostics::new() the first push allocates at a data-dependent moment, which leaves CBMC with a symbolic buffer
// pointer for every later push; a pre-sized vector keeps all pushes in place.  Behaviour is otherwise identical.
#[cfg(kani)]
impl Diagnostics {
    pub(crate) fn verif_with_capacity(n: usize) -> Self {
        Diagnostics(Vec::with_capacity(n))
    }
}
