//@@ group: sbin
//@@ target: slicec/src/slice_file_converter.rs
//
// C08, a first step into "says what the AST says": kernels of the AST -> schema conversion on hand-built AST
// elements.  (The encoders are K08-enc; the conversion of whole files - entity info with doc comments, attributes,
// parameter documentation - needs the AST graph and strings and stays outside.)
use super::*;
use slicec::grammar::{EnumeratorValue, Integer, Primitive, Scope, TypeRefDefinition};
use slicec::slice_file::{Location, Span};
use slicec::utils::ptr_util::{OwnedPtr, WeakPtr};

fn sp() -> Span {
    Span { start: Location { row: 1, col: 1 }, end: Location { row: 1, col: 1 }, file: String::new() }
}
fn id() -> GrammarIdentifier {
    GrammarIdentifier { value: String::new(), span: sp() }
}

//@ prop: C08
//@ family: K08-conv
//@ tier: quick
//@ functions: SliceFileContentsConverter::convert_enumerator, get_entity_info_for, Enumerator::value
//@ inst: hand-built plain Enumerator (no attributes, no comment)
//@ inputs: the enumerator value: any i128 inside the union of all underlying-type ranges (-2^63 ..= 2^64-1), implicit or explicit form
//@ oracle: absolute_value == |value| as u64 and has_negative_value == (value < 0): "enumerator values at the extremes of every underlying type" reach the generator unchanged
//@ bound: unwind 4
#[kani::proof]
#[kani::unwind(4)]
fn k08_conv_enumerator_value() {
    let v: i128 = kani::any();
    kani::assume(v >= -9223372036854775808 && v <= 18446744073709551615);
    let explicit: bool = kani::any();
    let e = GrammarEnumerator {
        identifier: id(),
        value: if explicit { EnumeratorValue::Explicit(Integer { value: v, span: sp() }) } else { EnumeratorValue::Implicit(v) },
        fields: None,
        parent: WeakPtr::create_uninitialized(),
        scope: Scope::default(),
        attributes: Vec::new(),
        comment: None,
        span: sp(),
    };
    let mut conv = SliceFileContentsConverter { converted_contents: Vec::new() };
    let out = conv.convert_enumerator(&e);
    kani::cover!(v == -9223372036854775808, "int64 minimum reachable");
    kani::cover!(v == 18446744073709551615, "uint64 maximum reachable");
    kani::cover!(v == -1, "-1 reachable");
    let want_abs: u64 = if v < 0 { (-(v + 1)) as u64 + 1 } else { v as u64 };
    assert!(out.absolute_value == want_abs, "the absolute value of the enumerator reaches the generator unchanged");
    assert!(out.has_negative_value == (v < 0), "the sign of the enumerator reaches the generator unchanged");
    core::mem::forget(out);
    core::mem::forget(conv);
    core::mem::forget(e);
}

//@ prop: C08
//@ family: K08-conv
//@ tier: quick
//@ functions: SliceFileContentsConverter::convert_field, convert_type_ref, get_type_id_for (primitive arm), get_entity_info_for
//@ inst: hand-built Field whose type is a TypeRef patched to Primitive::Int32
//@ inputs: tagged or not, tag value (any valid tag 0 ..= 2^31-1), is_optional
//@ oracle: tag == the written tag (None when untagged), is_optional as written, type id == "int32", no type attributes, nothing pushed into the converted contents
//@ bound: unwind 7 (5-character type id compared bytewise)
#[kani::proof]
#[kani::unwind(7)]
fn k08_conv_field_tag() {
    let tagged: bool = kani::any();
    let tag: u32 = kani::any();
    kani::assume(tag <= 2147483647);
    let optional: bool = kani::any();
    let prim = OwnedPtr::new(Primitive::Int32);
    let (data, type_id) = prim.downgrade().into_inner();
    let dynp: WeakPtr<dyn Type> = WeakPtr::from_inner((data.map(|p| p as *const dyn Type), type_id));
    let f = GrammarField {
        identifier: id(),
        data_type: GrammarTypeRef { definition: TypeRefDefinition::Patched(dynp), is_optional: optional, scope: Scope::default(), attributes: Vec::new(), span: sp() },
        tag: if tagged { Some(Integer { value: tag, span: sp() }) } else { None },
        parent: WeakPtr::create_uninitialized(),
        scope: Scope::default(),
        attributes: Vec::new(),
        comment: None,
        span: sp(),
    };
    let mut conv = SliceFileContentsConverter { converted_contents: Vec::new() };
    let out = conv.convert_field(&f);
    kani::cover!(tagged && tag == 2147483647, "tag 2^31-1 reachable");
    kani::cover!(tagged && tag == 0, "tag 0 reachable");
    kani::cover!(!tagged && optional, "untagged optional field reachable");
    assert!(out.tag == if tagged { Some(tag as i32) } else { None }, "the tag reaches the generator unchanged");
    assert!(out.data_type.is_optional == optional, "optionality reaches the generator unchanged");
    assert!(out.data_type.type_id == "int32", "a primitive type is identified by its keyword");
    assert!(out.data_type.type_attributes.len() == 0, "no attributes are invented");
    assert!(conv.converted_contents.len() == 0, "a primitive-typed field creates no anonymous-type symbol");
    core::mem::forget(out);
    core::mem::forget(conv);
    core::mem::forget(f);
    core::mem::forget(prim);
}

fn dyn_type<T: slicec::grammar::Type + 'static>(p: &OwnedPtr<T>) -> WeakPtr<dyn slicec::grammar::Type> {
    let (data, type_id) = p.downgrade().into_inner();
    WeakPtr::from_inner((data.map(|q| q as *const dyn slicec::grammar::Type), type_id))
}
fn patched(p: WeakPtr<dyn slicec::grammar::Type>, optional: bool) -> GrammarTypeRef {
    GrammarTypeRef { definition: TypeRefDefinition::Patched(p), is_optional: optional, scope: Scope::default(), attributes: Vec::new(), span: sp() }
}

// (Kernels for the numeric ids of anonymous types - Sequence<Sequence<int32>>, Dictionary<int32, Result<..>>, even a single
// Sequence<int32> - were built and dropped: get_type_id_for / convert_sequence / convert_type_ref recurse mutually through
// `dyn Type` with five recursive call sites; CBMC timed out (900 s) at unwind 3 and 4 even with usize::to_string stubbed,
// and unwind 2 fails the unwinding assertions.)

//@ prop: C08
//@ family: K08-conv
//@ tier: quick
//@ functions: SliceFileContentsConverter::convert_variant, Enumerator::value, Enumerator::fields
//@ inst: hand-built Enumerator without fields, as in an enum without underlying type
//@ inputs: the enumerator value: any value a validated program can carry there (0 ..= 2^31-1)
//@ oracle: discriminant == the value; no fields invented
//@ bound: unwind 4
#[kani::proof]
#[kani::unwind(4)]
fn k08_conv_variant_discriminant() {
    let v: i128 = kani::any();
    kani::assume(v >= 0 && v <= 2147483647);
    let e = GrammarEnumerator {
        identifier: id(),
        value: EnumeratorValue::Implicit(v),
        fields: None,
        parent: WeakPtr::create_uninitialized(),
        scope: Scope::default(),
        attributes: Vec::new(),
        comment: None,
        span: sp(),
    };
    let mut conv = SliceFileContentsConverter { converted_contents: Vec::new() };
    let out = conv.convert_variant(&e);
    kani::cover!(v == 2147483647, "discriminant 2^31-1 reachable");
    kani::cover!(v == 0, "discriminant 0 reachable");
    assert!(out.discriminant as i128 == v, "the discriminant reaches the generator unchanged");
    assert!(out.fields.len() == 0, "no fields are invented");
    core::mem::forget(out);
    core::mem::forget(conv);
    core::mem::forget(e);
}

//@ prop: C08
//@ family: K08-conv
//@ tier: quick
//@ functions: SliceFileContentsConverter::convert_enum, get_entity_info_for
//@ inst: hand-built Enum without enumerators; with underlying uint8 or without (two concrete layouts, symbolic selector)
//@ inputs: is_compact, is_unchecked, underlying present or not
//@ oracle: with an underlying type: Symbol::BasicEnum{is_unchecked as written, underlying "uint8"}; without: Symbol::VariantEnum{is_compact, is_unchecked as written}; no enumerators invented
//@ bound: unwind 7
//@ timeout: 900
#[kani::proof]
#[kani::unwind(7)]
fn k08_conv_enum_kind_and_flags() {
    let compact: bool = kani::any();
    let unchecked: bool = kani::any();
    let backed: bool = kani::any();
    let prim = OwnedPtr::new(Primitive::UInt8);
    let underlying = if backed {
        Some(slicec::grammar::TypeRef::<Primitive> { definition: TypeRefDefinition::Patched(prim.downgrade()), is_optional: false, scope: Scope::default(), attributes: Vec::new(), span: sp() })
    } else {
        None
    };
    let e = GrammarEnum { identifier: id(), enumerators: Vec::new(), underlying, is_compact: compact, is_unchecked: unchecked, scope: Scope::default(), attributes: Vec::new(), comment: None, span: sp() };
    let mut conv = SliceFileContentsConverter { converted_contents: Vec::new() };
    let out = conv.convert_enum(&e);
    kani::cover!(backed && unchecked, "unchecked backed enum reachable");
    kani::cover!(!backed && compact && !unchecked, "compact enum reachable");
    match &out {
        Symbol::BasicEnum(b) => {
            assert!(backed, "an enum becomes a BasicEnum only if it has an underlying type");
            assert!(b.is_unchecked == unchecked && b.underlying == "uint8" && b.enumerators.len() == 0, "flags and underlying type as written");
        }
        Symbol::VariantEnum(v) => {
            assert!(!backed, "an enum with an underlying type is never a VariantEnum");
            assert!(v.is_compact == compact && v.is_unchecked == unchecked && v.variants.len() == 0, "flags as written");
        }
        _ => assert!(false, "an enum converts to an enum symbol"),
    }
    core::mem::forget(out);
    core::mem::forget(conv);
    core::mem::forget(e);
    core::mem::forget(prim);
}

// (convert_struct with two fields and convert_operation with two parameters and a return member were also built and dropped:
// both timed out (900 s) in symbolic execution - every member conversion re-enters convert_type_ref / get_type_id_for.)
