//@@ group: sbin
//@@ target: slicec/src/definition_types.rs
//@@ generate: tools/gen_k08.py k08_gen.rs --expect "SliceFile Module Attribute Symbol Interface BasicEnum VariantEnum Struct CustomType SequenceType DictionaryType ResultType TypeAlias EntityInfo TypeRef DocComment Operation Enumerator Variant Field MessageComponent"
//
// C08, encoder half: for every type of the Compiler schema, the bytes produced by the real hand-written
// `impl EncodeInto` in definition_types.rs equal, byte for byte and in length, the encoding that the Slice2 rules
// prescribe for the schema in slice/Compiler/*.slice.  The reference encoder (ref_*) and the bounded arbitrary-value
// builders (any_*) are GENERATED from the .slice files of the scratch copy on every run (tools/gen_k08.py), so the
// oracle knows nothing of definition_types.rs beyond the names of its fields.  An independent reader that follows the
// schema therefore consumes the stream completely and reads back the same field values.
use super::*;
use slice_codec::buffer::slice::SliceOutputTarget;

const CAP: usize = 64; // 8 words of 8 bytes
include!("k08_gen.rs");

fn word(b: &[u8; CAP], i: usize) -> u64 {
    let o = 8 * i;
    u64::from_le_bytes([b[o], b[o + 1], b[o + 2], b[o + 3], b[o + 4], b[o + 5], b[o + 6], b[o + 7]])
}

macro_rules! enc_matches_schema {
    ($value:expr, $reference:ident) => {{
        let v = $value;
        let mut e = Exp::new();
        $reference(&v, &mut e);
        let mut out = [0u8; CAP];
        let written;
        {
            let mut enc: Encoder<SliceOutputTarget> = Encoder::from(&mut out[..]);
            let r = enc.encode(&v);
            assert!(r.is_ok(), "the encoder accepts every value of the type");
            core::mem::forget(r);
            written = CAP - enc.remaining();
        }
        assert!(e.n <= CAP, "harness buffer large enough for the reference encoding");
        assert!(written == e.n, "encoded length equals the length the schema prescribes");
        // both buffers start zeroed and hold `written == e.n` bytes, so whole-array equality is equality of the encodings;
        // compared 8 bytes at a time to keep the loop (and with it the global unwind bound) short
        let mut i = 0;
        while i < CAP / 8 {
            assert!(word(&out, i) == word(&e.buf, i), "encoded bytes equal the encoding the schema prescribes");
            i += 1;
        }
        core::mem::forget(v);
        e.n
    }};
}

//@ prop: C08
//@ family: K08-enc
//@ tier: quick
//@ functions: <&Attribute as EncodeInto>::encode_into (implement_encode_into_for_struct!)
//@ inst: Encoder<SliceOutputTarget>
//@ inputs: Attribute{directive: 1 ASCII byte, args: [1-byte string]}
//@ oracle: byte-for-byte and length equality with the reference encoder GENERATED from slice/Compiler/*.slice (bit sequence, fields in schema order, varint32 discriminants = enumerator position, tag end marker last)
//@ bound: unwind 10 (64-byte buffers compared as 8 words); concrete shape, symbolic scalars and string bytes
//@ timeout: 1200
#[kani::proof]
#[kani::unwind(10)]
fn k08_enc_attribute_1() {
    let v = any_Attribute(1, 1);
    kani::cover!(true, "value built");
    let _ = enc_matches_schema!(v, ref_Attribute);
}

//@ prop: C08
//@ family: K08-enc
//@ tier: thorough
//@ functions: <&Attribute as EncodeInto>::encode_into
//@ inst: Encoder<SliceOutputTarget>
//@ inputs: Attribute{directive: "", args: []}
//@ oracle: byte-for-byte and length equality with the reference encoder GENERATED from slice/Compiler/*.slice (bit sequence, fields in schema order, varint32 discriminants = enumerator position, tag end marker last)
//@ bound: unwind 10 (64-byte buffers compared as 8 words); concrete shape, symbolic scalars and string bytes
//@ timeout: 1200
#[kani::proof]
#[kani::unwind(10)]
fn k08_enc_attribute_0() {
    let v = any_Attribute(0, 0);
    kani::cover!(true, "value built");
    let _ = enc_matches_schema!(v, ref_Attribute);
}

//@ prop: C08
//@ family: K08-enc
//@ tier: quick
//@ functions: <&TypeRef as EncodeInto>::encode_into
//@ inst: Encoder<SliceOutputTarget>
//@ inputs: TypeRef{type_id: 1 byte, is_optional: any bool, type_attributes: [Attribute without arguments]}
//@ oracle: byte-for-byte and length equality with the reference encoder GENERATED from slice/Compiler/*.slice (bit sequence, fields in schema order, varint32 discriminants = enumerator position, tag end marker last)
//@ bound: unwind 10 (64-byte buffers compared as 8 words); concrete shape, symbolic scalars and string bytes
//@ timeout: 1200
#[kani::proof]
#[kani::unwind(10)]
fn k08_enc_typeref_1() {
    let v = any_TypeRef(1, 1);
    kani::cover!(v.is_optional, "v.is_optional reachable");
    let _ = enc_matches_schema!(v, ref_TypeRef);
}

//@ prop: C08
//@ family: K08-enc
//@ tier: quick
//@ functions: <&EntityInfo as EncodeInto>::encode_into (manual impl, bit sequence for the optional comment), <&DocComment as EncodeInto>::encode_into, <&MessageComponent as EncodeInto>::encode_into (Text)
//@ inst: Encoder<SliceOutputTarget>
//@ inputs: EntityInfo{identifier 1 byte, attributes [Attribute with one argument], comment: Some(DocComment{overview: [Text(1 byte)], see_tags: [1 byte]})}
//@ oracle: byte-for-byte and length equality with the reference encoder GENERATED from slice/Compiler/*.slice (bit sequence, fields in schema order, varint32 discriminants = enumerator position, tag end marker last)
//@ bound: unwind 10 (64-byte buffers compared as 8 words); concrete shape, symbolic scalars and string bytes
//@ timeout: 1200
#[kani::proof]
#[kani::unwind(10)]
fn k08_enc_entityinfo_2() {
    let v = any_EntityInfo(2, 1);
    kani::cover!(v.comment.is_some(), "v.comment.is_some() reachable");
    let _ = enc_matches_schema!(v, ref_EntityInfo);
}

//@ prop: C08
//@ family: K08-enc
//@ tier: quick
//@ functions: <&EntityInfo as EncodeInto>::encode_into (comment absent: bit sequence 0)
//@ inst: Encoder<SliceOutputTarget>
//@ inputs: EntityInfo{identifier 1 byte, no attributes, comment: None}
//@ oracle: byte-for-byte and length equality with the reference encoder GENERATED from slice/Compiler/*.slice (bit sequence, fields in schema order, varint32 discriminants = enumerator position, tag end marker last)
//@ bound: unwind 10 (64-byte buffers compared as 8 words); concrete shape, symbolic scalars and string bytes
//@ timeout: 1200
#[kani::proof]
#[kani::unwind(10)]
fn k08_enc_entityinfo_0() {
    let v = any_EntityInfo(0, 1);
    kani::cover!(v.comment.is_none(), "v.comment.is_none() reachable");
    let _ = enc_matches_schema!(v, ref_EntityInfo);
}

//@ prop: C08
//@ family: K08-enc
//@ tier: quick
//@ functions: <&DocComment as EncodeInto>::encode_into, <&MessageComponent as EncodeInto>::encode_into (Link and Text: discriminant read through a pointer cast)
//@ inst: Encoder<SliceOutputTarget>
//@ inputs: DocComment{overview: [Link(1 byte), Text(1 byte)], see_tags: []}
//@ oracle: byte-for-byte and length equality with the reference encoder GENERATED from slice/Compiler/*.slice (bit sequence, fields in schema order, varint32 discriminants = enumerator position, tag end marker last)
//@ bound: unwind 10 (64-byte buffers compared as 8 words); concrete shape, symbolic scalars and string bytes
//@ timeout: 1200
#[kani::proof]
#[kani::unwind(10)]
fn k08_enc_doccomment_link() {
    let v = DocComment { overview: { let mut q = Vec::with_capacity(2); q.push(any_MessageComponent_Link(0, 1)); q.push(any_MessageComponent_Text(0, 1)); q }, see_tags: Vec::new() };
    kani::cover!(v.overview.len() == 2, "v.overview.len() == 2 reachable");
    let _ = enc_matches_schema!(v, ref_DocComment);
}

//@ prop: C08
//@ family: K08-enc
//@ tier: quick
//@ functions: <&Field as EncodeInto>::encode_into (manual impl: bit sequence for the optional tag, encode_varint of the tag)
//@ inst: Encoder<SliceOutputTarget>
//@ inputs: Field{entity_info minimal (identifier 1 byte), tag: None | Some(any i32: all 2^32 values, every varint width), data_type (type_id 1 byte, is_optional any)}
//@ oracle: byte-for-byte and length equality with the reference encoder GENERATED from slice/Compiler/*.slice (bit sequence, fields in schema order, varint32 discriminants = enumerator position, tag end marker last)
//@ bound: unwind 10 (64-byte buffers compared as 8 words); concrete shape, symbolic scalars and string bytes
//@ timeout: 1200
#[kani::proof]
#[kani::unwind(10)]
fn k08_enc_field_0() {
    let v = any_Field(0, 1);
    kani::cover!(v.tag == Some(i32::MAX), "v.tag == Some(i32::MAX) reachable");
    kani::cover!(v.tag == Some(0), "v.tag == Some(0) reachable");
    kani::cover!(v.tag.is_none(), "v.tag.is_none() reachable");
    kani::cover!(v.tag == Some(-1), "v.tag == Some(-1) reachable");
    let _ = enc_matches_schema!(v, ref_Field);
}

//@ prop: C08
//@ family: K08-enc
//@ tier: quick
//@ functions: <&Module as EncodeInto>::encode_into
//@ inst: Encoder<SliceOutputTarget>
//@ inputs: Module{identifier 1 byte, attributes [Attribute]}
//@ oracle: byte-for-byte and length equality with the reference encoder GENERATED from slice/Compiler/*.slice (bit sequence, fields in schema order, varint32 discriminants = enumerator position, tag end marker last)
//@ bound: unwind 10 (64-byte buffers compared as 8 words); concrete shape, symbolic scalars and string bytes
//@ timeout: 1200
#[kani::proof]
#[kani::unwind(10)]
fn k08_enc_module_1() {
    let v = any_Module(1, 1);
    kani::cover!(true, "value built");
    let _ = enc_matches_schema!(v, ref_Module);
}

//@ prop: C08
//@ family: K08-enc
//@ tier: thorough
//@ functions: <&CustomType as EncodeInto>::encode_into
//@ inst: Encoder<SliceOutputTarget>
//@ inputs: CustomType{entity_info minimal}
//@ oracle: byte-for-byte and length equality with the reference encoder GENERATED from slice/Compiler/*.slice (bit sequence, fields in schema order, varint32 discriminants = enumerator position, tag end marker last)
//@ bound: unwind 10 (64-byte buffers compared as 8 words); concrete shape, symbolic scalars and string bytes
//@ timeout: 1200
#[kani::proof]
#[kani::unwind(10)]
fn k08_enc_customtype_0() {
    let v = any_CustomType(0, 1);
    kani::cover!(true, "value built");
    let _ = enc_matches_schema!(v, ref_CustomType);
}

//@ prop: C08
//@ family: K08-enc
//@ tier: thorough
//@ functions: <&SequenceType as EncodeInto>::encode_into
//@ inst: Encoder<SliceOutputTarget>
//@ inputs: SequenceType{element_type (1-byte id, any optionality)}
//@ oracle: byte-for-byte and length equality with the reference encoder GENERATED from slice/Compiler/*.slice (bit sequence, fields in schema order, varint32 discriminants = enumerator position, tag end marker last)
//@ bound: unwind 10 (64-byte buffers compared as 8 words); concrete shape, symbolic scalars and string bytes
//@ timeout: 1200
#[kani::proof]
#[kani::unwind(10)]
fn k08_enc_sequencetype_0() {
    let v = any_SequenceType(0, 1);
    kani::cover!(true, "value built");
    let _ = enc_matches_schema!(v, ref_SequenceType);
}

//@ prop: C08
//@ family: K08-enc
//@ tier: quick
//@ functions: <&DictionaryType as EncodeInto>::encode_into
//@ inst: Encoder<SliceOutputTarget>
//@ inputs: DictionaryType{key_type, value_type (1-byte ids, any optionality)}
//@ oracle: byte-for-byte and length equality with the reference encoder GENERATED from slice/Compiler/*.slice (bit sequence, fields in schema order, varint32 discriminants = enumerator position, tag end marker last)
//@ bound: unwind 10 (64-byte buffers compared as 8 words); concrete shape, symbolic scalars and string bytes
//@ timeout: 1200
#[kani::proof]
#[kani::unwind(10)]
fn k08_enc_dictionarytype_0() {
    let v = any_DictionaryType(0, 1);
    kani::cover!(v.value_type.is_optional && !v.key_type.is_optional, "v.value_type.is_optional && !v.key_type.is_optional reachable");
    let _ = enc_matches_schema!(v, ref_DictionaryType);
}

//@ prop: C08
//@ family: K08-enc
//@ tier: thorough
//@ functions: <&ResultType as EncodeInto>::encode_into
//@ inst: Encoder<SliceOutputTarget>
//@ inputs: ResultType{success_type, failure_type}
//@ oracle: byte-for-byte and length equality with the reference encoder GENERATED from slice/Compiler/*.slice (bit sequence, fields in schema order, varint32 discriminants = enumerator position, tag end marker last)
//@ bound: unwind 10 (64-byte buffers compared as 8 words); concrete shape, symbolic scalars and string bytes
//@ timeout: 1200
#[kani::proof]
#[kani::unwind(10)]
fn k08_enc_resulttype_0() {
    let v = any_ResultType(0, 1);
    kani::cover!(true, "value built");
    let _ = enc_matches_schema!(v, ref_ResultType);
}

//@ prop: C08
//@ family: K08-enc
//@ tier: thorough
//@ functions: <&TypeAlias as EncodeInto>::encode_into
//@ inst: Encoder<SliceOutputTarget>
//@ inputs: TypeAlias{entity_info minimal, underlying_type}
//@ oracle: byte-for-byte and length equality with the reference encoder GENERATED from slice/Compiler/*.slice (bit sequence, fields in schema order, varint32 discriminants = enumerator position, tag end marker last)
//@ bound: unwind 10 (64-byte buffers compared as 8 words); concrete shape, symbolic scalars and string bytes
//@ timeout: 1200
#[kani::proof]
#[kani::unwind(10)]
fn k08_enc_typealias_0() {
    let v = any_TypeAlias(0, 1);
    kani::cover!(true, "value built");
    let _ = enc_matches_schema!(v, ref_TypeAlias);
}

//@ prop: C08
//@ family: K08-enc
//@ tier: quick
//@ functions: <&Enumerator as EncodeInto>::encode_into
//@ inst: Encoder<SliceOutputTarget>
//@ inputs: Enumerator{entity_info minimal, absolute_value: any u64, has_negative_value: any bool}
//@ oracle: byte-for-byte and length equality with the reference encoder GENERATED from slice/Compiler/*.slice (bit sequence, fields in schema order, varint32 discriminants = enumerator position, tag end marker last)
//@ bound: unwind 10 (64-byte buffers compared as 8 words); concrete shape, symbolic scalars and string bytes
//@ timeout: 1200
#[kani::proof]
#[kani::unwind(10)]
fn k08_enc_enumerator_0() {
    let v = any_Enumerator(0, 1);
    kani::cover!(v.absolute_value == u64::MAX, "v.absolute_value == u64::MAX reachable");
    kani::cover!(v.has_negative_value, "v.has_negative_value reachable");
    let _ = enc_matches_schema!(v, ref_Enumerator);
}

//@ prop: C08
//@ family: K08-enc
//@ tier: quick
//@ functions: <&Struct as EncodeInto>::encode_into
//@ inst: Encoder<SliceOutputTarget>
//@ inputs: Struct{entity_info minimal (identifier 1 byte), is_compact any, fields: []}
//@ oracle: byte-for-byte and length equality with the reference encoder GENERATED from slice/Compiler/*.slice (bit sequence, fields in schema order, varint32 discriminants = enumerator position, tag end marker last)
//@ bound: unwind 10 (64-byte buffers compared as 8 words); concrete shape, symbolic scalars and string bytes
//@ timeout: 1200
#[kani::proof]
#[kani::unwind(10)]
fn k08_enc_struct_0() {
    let v = any_Struct(0, 1);
    kani::cover!(true, "value built");
    let _ = enc_matches_schema!(v, ref_Struct);
}

//@ prop: C08
//@ family: K08-enc
//@ tier: quick
//@ functions: <&Operation as EncodeInto>::encode_into
//@ inst: Encoder<SliceOutputTarget>
//@ inputs: Operation without parameters and return members
//@ oracle: byte-for-byte and length equality with the reference encoder GENERATED from slice/Compiler/*.slice (bit sequence, fields in schema order, varint32 discriminants = enumerator position, tag end marker last)
//@ bound: unwind 10 (64-byte buffers compared as 8 words); concrete shape, symbolic scalars and string bytes
//@ timeout: 1200
#[kani::proof]
#[kani::unwind(10)]
fn k08_enc_operation_0() {
    let v = any_Operation(0, 1);
    kani::cover!(v.has_streamed_return && !v.has_streamed_parameter && !v.is_idempotent, "only has_streamed_return set reachable");
    let _ = enc_matches_schema!(v, ref_Operation);
}

//@ prop: C08
//@ family: K08-enc
//@ tier: quick
//@ functions: <&Symbol as EncodeInto>::encode_into (enumerator Interface: discriminant read through a pointer cast of the repr(u8) enum)
//@ inst: Encoder<SliceOutputTarget>
//@ inputs: Symbol::Interface with a minimal payload (strings 1 byte, empty sequences, scalars symbolic)
//@ oracle: byte-for-byte and length equality with the reference encoder GENERATED from slice/Compiler/*.slice (bit sequence, fields in schema order, varint32 discriminants = enumerator position, tag end marker last)
//@ bound: unwind 10 (64-byte buffers compared as 8 words); concrete shape, symbolic scalars and string bytes
//@ timeout: 1200
#[kani::proof]
#[kani::unwind(10)]
fn k08_enc_symbol_interface() {
    let v = any_Symbol_Interface(0, 1);
    kani::cover!(true, "value built");
    let _ = enc_matches_schema!(v, ref_Symbol);
}

//@ prop: C08
//@ family: K08-enc
//@ tier: thorough
//@ functions: <&Symbol as EncodeInto>::encode_into (enumerator VariantEnum: discriminant read through a pointer cast of the repr(u8) enum)
//@ inst: Encoder<SliceOutputTarget>
//@ inputs: Symbol::VariantEnum with a minimal payload (strings 1 byte, empty sequences, scalars symbolic)
//@ oracle: byte-for-byte and length equality with the reference encoder GENERATED from slice/Compiler/*.slice (bit sequence, fields in schema order, varint32 discriminants = enumerator position, tag end marker last)
//@ bound: unwind 10 (64-byte buffers compared as 8 words); concrete shape, symbolic scalars and string bytes
//@ timeout: 1200
#[kani::proof]
#[kani::unwind(10)]
fn k08_enc_symbol_variantenum() {
    let v = any_Symbol_VariantEnum(0, 1);
    kani::cover!(true, "value built");
    let _ = enc_matches_schema!(v, ref_Symbol);
}

//@ prop: C08
//@ family: K08-enc
//@ tier: thorough
//@ functions: <&Symbol as EncodeInto>::encode_into (enumerator Struct: discriminant read through a pointer cast of the repr(u8) enum)
//@ inst: Encoder<SliceOutputTarget>
//@ inputs: Symbol::Struct with a minimal payload (strings 1 byte, empty sequences, scalars symbolic)
//@ oracle: byte-for-byte and length equality with the reference encoder GENERATED from slice/Compiler/*.slice (bit sequence, fields in schema order, varint32 discriminants = enumerator position, tag end marker last)
//@ bound: unwind 10 (64-byte buffers compared as 8 words); concrete shape, symbolic scalars and string bytes
//@ timeout: 1200
#[kani::proof]
#[kani::unwind(10)]
fn k08_enc_symbol_struct() {
    let v = any_Symbol_Struct(0, 1);
    kani::cover!(true, "value built");
    let _ = enc_matches_schema!(v, ref_Symbol);
}

//@ prop: C08
//@ family: K08-enc
//@ tier: thorough
//@ functions: <&Symbol as EncodeInto>::encode_into (enumerator CustomType: discriminant read through a pointer cast of the repr(u8) enum)
//@ inst: Encoder<SliceOutputTarget>
//@ inputs: Symbol::CustomType with a minimal payload (strings 1 byte, empty sequences, scalars symbolic)
//@ oracle: byte-for-byte and length equality with the reference encoder GENERATED from slice/Compiler/*.slice (bit sequence, fields in schema order, varint32 discriminants = enumerator position, tag end marker last)
//@ bound: unwind 10 (64-byte buffers compared as 8 words); concrete shape, symbolic scalars and string bytes
//@ timeout: 1200
#[kani::proof]
#[kani::unwind(10)]
fn k08_enc_symbol_customtype() {
    let v = any_Symbol_CustomType(0, 1);
    kani::cover!(true, "value built");
    let _ = enc_matches_schema!(v, ref_Symbol);
}

//@ prop: C08
//@ family: K08-enc
//@ tier: thorough
//@ functions: <&Symbol as EncodeInto>::encode_into (enumerator SequenceType: discriminant read through a pointer cast of the repr(u8) enum)
//@ inst: Encoder<SliceOutputTarget>
//@ inputs: Symbol::SequenceType with a minimal payload (strings 1 byte, empty sequences, scalars symbolic)
//@ oracle: byte-for-byte and length equality with the reference encoder GENERATED from slice/Compiler/*.slice (bit sequence, fields in schema order, varint32 discriminants = enumerator position, tag end marker last)
//@ bound: unwind 10 (64-byte buffers compared as 8 words); concrete shape, symbolic scalars and string bytes
//@ timeout: 1200
#[kani::proof]
#[kani::unwind(10)]
fn k08_enc_symbol_sequencetype() {
    let v = any_Symbol_SequenceType(0, 1);
    kani::cover!(true, "value built");
    let _ = enc_matches_schema!(v, ref_Symbol);
}

//@ prop: C08
//@ family: K08-enc
//@ tier: quick
//@ functions: <&Symbol as EncodeInto>::encode_into (enumerator DictionaryType: discriminant read through a pointer cast of the repr(u8) enum)
//@ inst: Encoder<SliceOutputTarget>
//@ inputs: Symbol::DictionaryType with a minimal payload (strings 1 byte, empty sequences, scalars symbolic)
//@ oracle: byte-for-byte and length equality with the reference encoder GENERATED from slice/Compiler/*.slice (bit sequence, fields in schema order, varint32 discriminants = enumerator position, tag end marker last)
//@ bound: unwind 10 (64-byte buffers compared as 8 words); concrete shape, symbolic scalars and string bytes
//@ timeout: 1200
#[kani::proof]
#[kani::unwind(10)]
fn k08_enc_symbol_dictionarytype() {
    let v = any_Symbol_DictionaryType(0, 1);
    kani::cover!(true, "value built");
    let _ = enc_matches_schema!(v, ref_Symbol);
}

//@ prop: C08
//@ family: K08-enc
//@ tier: quick
//@ functions: <&Symbol as EncodeInto>::encode_into (enumerator ResultType: discriminant read through a pointer cast of the repr(u8) enum)
//@ inst: Encoder<SliceOutputTarget>
//@ inputs: Symbol::ResultType with a minimal payload (strings 1 byte, empty sequences, scalars symbolic)
//@ oracle: byte-for-byte and length equality with the reference encoder GENERATED from slice/Compiler/*.slice (bit sequence, fields in schema order, varint32 discriminants = enumerator position, tag end marker last)
//@ bound: unwind 10 (64-byte buffers compared as 8 words); concrete shape, symbolic scalars and string bytes
//@ timeout: 1200
#[kani::proof]
#[kani::unwind(10)]
fn k08_enc_symbol_resulttype() {
    let v = any_Symbol_ResultType(0, 1);
    kani::cover!(true, "value built");
    let _ = enc_matches_schema!(v, ref_Symbol);
}

//@ prop: C08
//@ family: K08-enc
//@ tier: quick
//@ functions: <&Variant as EncodeInto>::encode_into
//@ inst: Encoder<SliceOutputTarget>
//@ inputs: Variant{entity_info minimal (identifier 1 byte), discriminant: any i32, fields: []}
//@ oracle: byte-for-byte and length equality with the reference encoder GENERATED from slice/Compiler/*.slice (bit sequence, fields in schema order, varint32 discriminants = enumerator position, tag end marker last)
//@ bound: unwind 10 (64-byte buffers compared as 8 words); concrete shape, symbolic scalars and string bytes
//@ timeout: 1200
#[kani::proof]
#[kani::unwind(10)]
fn k08_enc_variant_0() {
    let v = any_Variant(0, 1);
    kani::cover!(v.discriminant == i32::MAX, "v.discriminant == i32::MAX reachable");
    kani::cover!(v.discriminant == -1, "v.discriminant == -1 reachable");
    let _ = enc_matches_schema!(v, ref_Variant);
}

//@ prop: C08
//@ family: K08-enc
//@ tier: quick
//@ functions: <&BasicEnum as EncodeInto>::encode_into
//@ inst: Encoder<SliceOutputTarget>
//@ inputs: BasicEnum{entity_info minimal, is_unchecked any, underlying 1 byte, enumerators: []}
//@ oracle: byte-for-byte and length equality with the reference encoder GENERATED from slice/Compiler/*.slice (bit sequence, fields in schema order, varint32 discriminants = enumerator position, tag end marker last)
//@ bound: unwind 10 (64-byte buffers compared as 8 words); concrete shape, symbolic scalars and string bytes
//@ timeout: 1200
#[kani::proof]
#[kani::unwind(10)]
fn k08_enc_basicenum_0() {
    let v = any_BasicEnum(0, 1);
    kani::cover!(v.is_unchecked, "v.is_unchecked reachable");
    let _ = enc_matches_schema!(v, ref_BasicEnum);
}

//@ prop: C08
//@ family: K08-enc
//@ tier: quick
//@ functions: <&VariantEnum as EncodeInto>::encode_into
//@ inst: Encoder<SliceOutputTarget>
//@ inputs: VariantEnum{entity_info minimal, is_compact any, is_unchecked any, variants: []}
//@ oracle: byte-for-byte and length equality with the reference encoder GENERATED from slice/Compiler/*.slice (bit sequence, fields in schema order, varint32 discriminants = enumerator position, tag end marker last)
//@ bound: unwind 10 (64-byte buffers compared as 8 words); concrete shape, symbolic scalars and string bytes
//@ timeout: 1200
#[kani::proof]
#[kani::unwind(10)]
fn k08_enc_variantenum_0() {
    let v = any_VariantEnum(0, 1);
    kani::cover!(v.is_compact && !v.is_unchecked, "v.is_compact && !v.is_unchecked reachable");
    kani::cover!(!v.is_compact && v.is_unchecked, "!v.is_compact && v.is_unchecked reachable");
    let _ = enc_matches_schema!(v, ref_VariantEnum);
}

//@ prop: C08
//@ family: K08-enc
//@ tier: quick
//@ functions: <&Interface as EncodeInto>::encode_into
//@ inst: Encoder<SliceOutputTarget>
//@ inputs: Interface{entity_info minimal, bases: [], operations: []}
//@ oracle: byte-for-byte and length equality with the reference encoder GENERATED from slice/Compiler/*.slice (bit sequence, fields in schema order, varint32 discriminants = enumerator position, tag end marker last)
//@ bound: unwind 10 (64-byte buffers compared as 8 words); concrete shape, symbolic scalars and string bytes
//@ timeout: 1200
#[kani::proof]
#[kani::unwind(10)]
fn k08_enc_interface_0() {
    let v = any_Interface(0, 1);
    kani::cover!(true, "value built");
    let _ = enc_matches_schema!(v, ref_Interface);
}

//@ prop: C08
//@ family: K08-enc
//@ tier: quick
//@ functions: <&SliceFile as EncodeInto>::encode_into
//@ inst: Encoder<SliceOutputTarget>
//@ inputs: SliceFile{path 1 byte, module_declaration (identifier 1 byte), attributes: [], contents: []}
//@ oracle: byte-for-byte and length equality with the reference encoder GENERATED from slice/Compiler/*.slice (bit sequence, fields in schema order, varint32 discriminants = enumerator position, tag end marker last)
//@ bound: unwind 10 (64-byte buffers compared as 8 words); concrete shape, symbolic scalars and string bytes
//@ timeout: 1200
#[kani::proof]
#[kani::unwind(10)]
fn k08_enc_slicefile_0() {
    let v = any_SliceFile(0, 1);
    kani::cover!(true, "value built");
    let _ = enc_matches_schema!(v, ref_SliceFile);
}

//@ prop: C08
//@ family: K08-enc
//@ tier: quick
//@ functions: <Arguments as EncodeInto>::encode_into
//@ inst: Encoder<SliceOutputTarget>
//@ inputs: Arguments with exactly 1 (key, value) pair of 1-byte ASCII strings
//@ oracle: Dictionary<string,string> per the schema's typealias: size, then key, value per pair in order; no tag end marker
//@ bound: unwind 10
//@ timeout: 1200
#[kani::proof]
#[kani::unwind(10)]
fn k08_enc_arguments_1() {
    let mut pairs: Vec<(String, String)> = Vec::with_capacity(1);
    let mut e = Exp::new();
    e.size(1);
    let mut i = 0;
    while i < 1 {
        let k = any_string(1);
        let v = any_string(1);
        e.string(&k);
        e.string(&v);
        pairs.push((k, v));
        i += 1;
    }
    let mut out = [0u8; CAP];
    let written;
    {
        let mut enc: Encoder<SliceOutputTarget> = Encoder::from(&mut out[..]);
        let r = enc.encode(Arguments(pairs));
        assert!(r.is_ok(), "the encoder accepts every argument list");
        core::mem::forget(r);
        written = CAP - enc.remaining();
    }
    kani::cover!(e.n == 5, "one pair of one-byte strings reachable");
    assert!(written == e.n, "encoded length equals the length the schema prescribes");
    let mut i = 0;
    while i < CAP / 8 {
        assert!(word(&out, i) == word(&e.buf, i), "encoded bytes equal the encoding the schema prescribes");
        i += 1;
    }
}
