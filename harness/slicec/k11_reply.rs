//@@ group: sbin
//@@ target: slicec/src/definition_types.rs
//
// C11 on the generator-reply types of the slicec binary (DiagnosticLevel, Diagnostic, GeneratedFile: the hand-written
// DecodeFrom impls that read what an untrusted code generator sends back): arbitrary content bytes inside a concrete
// frame (announced string lengths are concrete, DESIGN 6.2), no panic, out-of-range level / bool rejected,
// truncation rejected, exact consumption.
use super::*;
use slice_codec::buffer::slice::SliceInputSource;

//@ prop: C11
//@ family: K11-reply
//@ tier: quick
//@ functions: <DiagnosticLevel as DecodeFrom>::decode_from
//@ inst: Decoder<SliceInputSource>
//@ inputs: [b, t] for all bytes b, t; and the empty buffer (symbolic selector)
//@ oracle: Ok(level) iff b in 0..=2 with Info=0, Warning=1, Error=2 and exactly one byte consumed; b >= 3 gives an error; empty buffer gives Err; no panic
//@ bound: unwind 4
#[kani::proof]
#[kani::unwind(4)]
fn k11_reply_level() {
    let buf: [u8; 2] = kani::any();
    let empty: bool = kani::any();
    let mut dec: Decoder<SliceInputSource> = if empty { Decoder::from(&buf[..0]) } else { Decoder::from(&buf[..]) };
    let r = dec.decode::<DiagnosticLevel>();
    kani::cover!(!empty && buf[0] == 2, "level 2 (Error) reachable");
    kani::cover!(!empty && buf[0] == 3, "level 3 (illegal) reachable");
    kani::cover!(empty, "empty buffer reachable");
    match &r {
        Ok(l) => {
            assert!(!empty && buf[0] <= 2, "a level outside 0..=2 (or no byte at all) is never accepted");
            assert!((*l as u8) == buf[0], "Info = 0, Warning = 1, Error = 2");
            assert!(dec.remaining() == 1, "exactly one byte consumed");
        }
        Err(_) => assert!(empty || buf[0] >= 3, "levels 0, 1, 2 always decode"),
    }
    core::mem::forget(r);
}

//@ prop: C11
//@ family: K11-reply
//@ tier: quick
//@ functions: <Diagnostic as DecodeFrom>::decode_from (bit sequence, level, message, skip_tagged_fields)
//@ inst: Decoder<SliceInputSource>
//@ inputs: [has_source, level, 1<<2, m, 0xFC] with has_source, level, m arbitrary bytes (frame without source bytes, tag end marker concrete)
//@ oracle: no panic; Ok iff has_source == 0, level <= 2 and m is ASCII; then message == [m], no source, level as sent, everything consumed; has_source == 1 (source announced, absent) and has_source >= 2 (illegal bool) never decode
//@ bound: unwind 4; string length concrete (1)
//@ timeout: 1200
#[kani::proof]
#[kani::unwind(4)]
fn k11_reply_diagnostic_plain() {
    let hs: u8 = kani::any();
    let lv: u8 = kani::any();
    let m: u8 = kani::any();
    let buf = [hs, lv, 1 << 2, m, 0xFC];
    let mut dec: Decoder<SliceInputSource> = Decoder::from(&buf[..]);
    let r = dec.decode::<Diagnostic>();
    kani::cover!(r.is_ok(), "diagnostic without source accepted reachable");
    kani::cover!(r.is_err() && hs == 2, "illegal bit-sequence bool rejected reachable");
    kani::cover!(r.is_err() && hs == 0 && lv == 3, "illegal level rejected reachable");
    kani::cover!(r.is_err() && hs == 0 && lv == 0 && m == 0xFF, "invalid UTF-8 message rejected reachable");
    match &r {
        Ok(d) => {
            assert!(hs == 0, "only has_source = 0 decodes from a frame without source bytes; an out-of-range bool never does");
            assert!(lv <= 2, "an out-of-range level is never accepted");
            assert!(m < 0x80, "invalid UTF-8 in the message is never accepted");
            assert!((d.level as u8) == lv, "the level is the one sent");
            assert!(d.message.len() == 1 && d.message.as_bytes()[0] == m, "the message is the byte sent");
            assert!(d.source.is_none(), "no source");
            assert!(dec.remaining() == 0, "everything consumed");
        }
        Err(_) => assert!(hs != 0 || lv > 2 || m >= 0x80, "a well-formed diagnostic always decodes"),
    }
    core::mem::forget(r);
}

//@ prop: C11
//@ family: K11-reply
//@ tier: quick
//@ functions: <Diagnostic as DecodeFrom>::decode_from (optional source present)
//@ inst: Decoder<SliceInputSource>
//@ inputs: [1, level, 1<<2, m, 1<<2, s, 0xFC] with level, m, s arbitrary bytes (has_source concrete 1)
//@ oracle: no panic; Ok iff level <= 2 and m, s ASCII; then message == [m], source == Some([s]), everything consumed
//@ bound: unwind 4; string lengths concrete (1)
//@ timeout: 1200
#[kani::proof]
#[kani::unwind(4)]
fn k11_reply_diagnostic_source() {
    let lv: u8 = kani::any();
    let m: u8 = kani::any();
    let s: u8 = kani::any();
    let buf = [1, lv, 1 << 2, m, 1 << 2, s, 0xFC];
    let mut dec: Decoder<SliceInputSource> = Decoder::from(&buf[..]);
    let r = dec.decode::<Diagnostic>();
    kani::cover!(r.is_ok() && lv == 2, "error diagnostic with source accepted reachable");
    kani::cover!(r.is_err() && lv <= 2 && m < 0x80, "invalid UTF-8 source rejected reachable");
    match &r {
        Ok(d) => {
            assert!(lv <= 2 && m < 0x80 && s < 0x80, "out-of-range level and invalid UTF-8 are never accepted");
            assert!((d.level as u8) == lv, "the level is the one sent");
            assert!(d.message.len() == 1 && d.message.as_bytes()[0] == m, "the message is the byte sent");
            match &d.source {
                Some(src) => assert!(src.len() == 1 && src.as_bytes()[0] == s, "the source is the byte sent"),
                None => assert!(false, "has_source = 1 yields a source"),
            }
            assert!(dec.remaining() == 0, "everything consumed");
        }
        Err(_) => assert!(lv > 2 || m >= 0x80 || s >= 0x80, "a well-formed diagnostic always decodes"),
    }
    core::mem::forget(r);
}

//@ prop: C11
//@ family: K11-reply
//@ tier: quick
//@ functions: <GeneratedFile as DecodeFrom>::decode_from (path, contents, skip_tagged_fields)
//@ inst: Decoder<SliceInputSource>
//@ inputs: [1<<2, p, 1<<2, c, 0xFC] with p, c arbitrary bytes; complete, or truncated before the tag end marker (two concrete frames, symbolic selector)
//@ oracle: no panic; the truncated frame never decodes; Ok iff complete and p, c ASCII; then path == [p], contents == [c], everything consumed
//@ bound: unwind 4; string lengths concrete (1)
//@ timeout: 1200
#[kani::proof]
#[kani::unwind(4)]
fn k11_reply_generated_file() {
    let truncated: bool = kani::any();
    let p: u8 = kani::any();
    let c: u8 = kani::any();
    let full = [1 << 2, p, 1 << 2, c, 0xFC];
    let r;
    let rem;
    if truncated {
        let mut dec: Decoder<SliceInputSource> = Decoder::from(&full[..4]);
        r = dec.decode::<GeneratedFile>();
        rem = dec.remaining();
    } else {
        let mut dec: Decoder<SliceInputSource> = Decoder::from(&full[..]);
        r = dec.decode::<GeneratedFile>();
        rem = dec.remaining();
    }
    kani::cover!(r.is_ok(), "generated file accepted reachable");
    kani::cover!(r.is_err() && !truncated, "invalid UTF-8 rejected reachable");
    kani::cover!(truncated, "truncated reply reachable");
    match &r {
        Ok(f) => {
            assert!(!truncated, "a reply truncated before the tag end marker never decodes");
            assert!(p < 0x80 && c < 0x80, "invalid UTF-8 is never accepted");
            assert!(f.path.len() == 1 && f.path.as_bytes()[0] == p, "the path is the byte sent");
            assert!(f.contents.len() == 1 && f.contents.as_bytes()[0] == c, "the contents are the byte sent");
            assert!(rem == 0, "everything consumed");
        }
        Err(_) => assert!(truncated || p >= 0x80 || c >= 0x80, "a well-formed generated file always decodes"),
    }
    core::mem::forget(r);
}
