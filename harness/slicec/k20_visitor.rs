//@@ group: slib
//@@ target: slicec/src/visitor.rs
//
// C20 on a catalogue of small hand-built ASTs: every `visit_with` implementation and every nested-type arm of
// TypeRef::visit_with is walked by the REAL traversal code with a recording visitor, and the recorded sequence of
// (callback kind, address of the element presented) must equal the order the property prescribes: container before
// contents, members in declaration order, parameters before return members, each owner immediately followed by its
// type and then the types nested inside it, nothing twice, nothing skipped, nothing foreign.  Shapes are concrete
// (DESIGN 6.2); what is symbolic is which optional parts exist (selectors over concrete layouts) - so this is a
// bounded catalogue, not a quantification over programs.
use super::*;
use crate::slice_file::{Location, Span};
use crate::utils::ptr_util::{upcast_weak_as, OwnedPtr, WeakPtr};

const FILE: u8 = 1;
const MODULE: u8 = 2;
const STRUCT: u8 = 3;
const INTERFACE: u8 = 4;
const ENUM: u8 = 5;
const OPERATION: u8 = 6;
const CUSTOM: u8 = 7;
const ALIAS: u8 = 8;
const FIELD: u8 = 9;
const PARAM: u8 = 10;
const ENUMERATOR: u8 = 11;
const TYPEREF: u8 = 12;

struct Rec {
    kind: [u8; 12],
    addr: [usize; 12],
    n: usize,
}
impl Rec {
    fn new() -> Rec {
        Rec { kind: [0; 12], addr: [0; 12], n: 0 }
    }
    fn push<T>(&mut self, k: u8, p: &T) {
        if self.n < 12 {
            self.kind[self.n] = k;
            self.addr[self.n] = p as *const T as usize;
        }
        self.n += 1;
    }
    fn is<T>(&self, i: usize, k: u8, p: &T) -> bool {
        i < self.n && self.kind[i] == k && self.addr[i] == p as *const T as usize
    }
}
impl Visitor for Rec {
    fn visit_file(&mut self, x: &SliceFile) {
        self.push(FILE, x)
    }
    fn visit_module(&mut self, x: &Module) {
        self.push(MODULE, x)
    }
    fn visit_struct(&mut self, x: &Struct) {
        self.push(STRUCT, x)
    }
    fn visit_interface(&mut self, x: &Interface) {
        self.push(INTERFACE, x)
    }
    fn visit_enum(&mut self, x: &Enum) {
        self.push(ENUM, x)
    }
    fn visit_operation(&mut self, x: &Operation) {
        self.push(OPERATION, x)
    }
    fn visit_custom_type(&mut self, x: &CustomType) {
        self.push(CUSTOM, x)
    }
    fn visit_type_alias(&mut self, x: &TypeAlias) {
        self.push(ALIAS, x)
    }
    fn visit_field(&mut self, x: &Field) {
        self.push(FIELD, x)
    }
    fn visit_parameter(&mut self, x: &Parameter) {
        self.push(PARAM, x)
    }
    fn visit_enumerator(&mut self, x: &Enumerator) {
        self.push(ENUMERATOR, x)
    }
    fn visit_type_ref(&mut self, x: &TypeRef) {
        self.push(TYPEREF, x)
    }
}

fn sp() -> Span {
    Span { start: Location { row: 1, col: 1 }, end: Location { row: 1, col: 1 }, file: String::new() }
}
fn id() -> Identifier {
    Identifier { value: String::new(), span: sp() }
}
fn unpatched() -> TypeRef {
    TypeRef { definition: TypeRefDefinition::Unpatched(id()), is_optional: false, scope: Scope::default(), attributes: Vec::new(), span: sp() }
}
fn patched(p: WeakPtr<dyn Type>) -> TypeRef {
    TypeRef { definition: TypeRefDefinition::Patched(p), is_optional: false, scope: Scope::default(), attributes: Vec::new(), span: sp() }
}
fn field(t: TypeRef) -> OwnedPtr<Field> {
    OwnedPtr::new(Field { identifier: id(), data_type: t, tag: None, parent: WeakPtr::create_uninitialized(), scope: Scope::default(), attributes: Vec::new(), comment: None, span: sp() })
}
fn param(t: TypeRef) -> OwnedPtr<Parameter> {
    OwnedPtr::new(Parameter { identifier: id(), data_type: t, tag: None, is_streamed: false, parent: WeakPtr::create_uninitialized(), scope: Scope::default(), attributes: Vec::new(), span: sp() })
}

//@ prop: C20
//@ family: K20-catalogue
//@ tier: quick
//@ functions: Struct::visit_with, Field::visit_with, TypeRef::visit_with (unpatched arm)
//@ inst: recording Visitor (static dispatch); hand-built Struct with 0, 1 or 2 fields (three concrete layouts, symbolic selector)
//@ inputs: number of fields
//@ oracle: recorded == [struct, (field_i, its type)*] in declaration order, each element by address, exactly 1 + 2n callbacks
//@ bound: unwind 4; at most 2 fields; field types are unresolved references (not descended into)
#[kani::proof]
#[kani::unwind(4)]
fn k20_struct_fields() {
    let n: u8 = kani::any();
    kani::assume(n <= 2);
    let f0 = field(unpatched());
    let f1 = field(unpatched());
    let mut fields = Vec::with_capacity(2);
    if n >= 1 {
        fields.push(f0.downgrade());
    }
    if n >= 2 {
        fields.push(f1.downgrade());
    }
    let s = Struct { identifier: id(), fields, is_compact: false, scope: Scope::default(), attributes: Vec::new(), comment: None, span: sp() };
    let mut r = Rec::new();
    s.visit_with(&mut r);
    kani::cover!(n == 2, "two fields reachable");
    kani::cover!(n == 0, "no field reachable");
    assert!(r.n == 1 + 2 * (n as usize), "every element is presented exactly once, nothing else");
    assert!(r.is(0, STRUCT, &s), "the container comes first");
    if n >= 1 {
        assert!(r.is(1, FIELD, f0.borrow()) && r.is(2, TYPEREF, &f0.borrow().data_type), "first field, immediately followed by its type");
    }
    if n >= 2 {
        assert!(r.is(3, FIELD, f1.borrow()) && r.is(4, TYPEREF, &f1.borrow().data_type), "second field after the first, followed by its type");
    }
    core::mem::forget(s);
    core::mem::forget(f0);
    core::mem::forget(f1);
}

//@ prop: C20
//@ family: K20-catalogue
//@ tier: quick
//@ functions: Interface::visit_with, Operation::visit_with, Parameter::visit_with, TypeRef::visit_with
//@ inst: recording Visitor; hand-built Interface with one operation having 2 parameters and 0 or 1 return member (two concrete layouts)
//@ inputs: return member present or not
//@ oracle: recorded == [interface, operation, param0, type, param1, type, (return member, type)?]: parameters in order before return members, each followed by its type
//@ bound: unwind 4
#[kani::proof]
#[kani::unwind(4)]
fn k20_interface_operation() {
    let has_ret: bool = kani::any();
    let p0 = param(unpatched());
    let p1 = param(unpatched());
    let rm = param(unpatched());
    let mut parameters = Vec::with_capacity(2);
    parameters.push(p0.downgrade());
    parameters.push(p1.downgrade());
    let mut return_type = Vec::with_capacity(1);
    if has_ret {
        return_type.push(rm.downgrade());
    }
    let op = OwnedPtr::new(Operation {
        identifier: id(),
        parameters,
        return_type,
        is_idempotent: false,
        parent: WeakPtr::create_uninitialized(),
        scope: Scope::default(),
        attributes: Vec::new(),
        comment: None,
        span: sp(),
    });
    let mut operations = Vec::with_capacity(1);
    operations.push(op.downgrade());
    let i = Interface { identifier: id(), operations, bases: Vec::new(), scope: Scope::default(), attributes: Vec::new(), comment: None, span: sp() };
    let mut r = Rec::new();
    i.visit_with(&mut r);
    kani::cover!(has_ret, "operation with a return member reachable");
    kani::cover!(!has_ret, "operation without return reachable");
    assert!(r.n == 6 + if has_ret { 2 } else { 0 }, "every element is presented exactly once, nothing else");
    assert!(r.is(0, INTERFACE, &i) && r.is(1, OPERATION, op.borrow()), "interface, then its operation");
    assert!(r.is(2, PARAM, p0.borrow()) && r.is(3, TYPEREF, &p0.borrow().data_type), "first parameter and its type");
    assert!(r.is(4, PARAM, p1.borrow()) && r.is(5, TYPEREF, &p1.borrow().data_type), "second parameter and its type");
    if has_ret {
        assert!(r.is(6, PARAM, rm.borrow()) && r.is(7, TYPEREF, &rm.borrow().data_type), "return member after all parameters, followed by its type");
    }
    core::mem::forget(i);
    core::mem::forget(op);
    core::mem::forget(p0);
    core::mem::forget(p1);
    core::mem::forget(rm);
}

//@ prop: C20
//@ family: K20-catalogue
//@ tier: quick
//@ functions: Enum::visit_with, Enumerator::visit_with, Field::visit_with
//@ inst: recording Visitor; hand-built Enum with two enumerators, the first with a field list of one field or none (two concrete layouts), the second plain
//@ inputs: first enumerator with or without its field
//@ oracle: recorded == [enum, enumerator0, (field, type)?, enumerator1]: enumerator fields right after their enumerator, before the next enumerator
//@ bound: unwind 4
#[kani::proof]
#[kani::unwind(4)]
fn k20_enum_enumerators() {
    let with_field: bool = kani::any();
    let f = field(unpatched());
    let mk = |fields: Option<Vec<WeakPtr<Field>>>| {
        OwnedPtr::new(Enumerator {
            identifier: id(),
            value: EnumeratorValue::Implicit(0),
            fields,
            parent: WeakPtr::create_uninitialized(),
            scope: Scope::default(),
            attributes: Vec::new(),
            comment: None,
            span: sp(),
        })
    };
    let e0 = if with_field {
        let mut v = Vec::with_capacity(1);
        v.push(f.downgrade());
        mk(Some(v))
    } else {
        mk(None)
    };
    let e1 = mk(None);
    let mut enumerators = Vec::with_capacity(2);
    enumerators.push(e0.downgrade());
    enumerators.push(e1.downgrade());
    let en = Enum { identifier: id(), enumerators, underlying: None, is_compact: false, is_unchecked: false, scope: Scope::default(), attributes: Vec::new(), comment: None, span: sp() };
    let mut r = Rec::new();
    en.visit_with(&mut r);
    kani::cover!(with_field, "enumerator with a field reachable");
    kani::cover!(!with_field, "plain enumerators reachable");
    let k = if with_field { 2 } else { 0 };
    assert!(r.n == 3 + k, "every element is presented exactly once, nothing else");
    assert!(r.is(0, ENUM, &en) && r.is(1, ENUMERATOR, e0.borrow()), "enum, then its first enumerator");
    if with_field {
        assert!(r.is(2, FIELD, f.borrow()) && r.is(3, TYPEREF, &f.borrow().data_type), "the enumerator's field and its type come right after the enumerator");
    }
    assert!(r.is(2 + k, ENUMERATOR, e1.borrow()), "the second enumerator comes after everything of the first");
    core::mem::forget(en);
    core::mem::forget(e0);
    core::mem::forget(e1);
    core::mem::forget(f);
}

fn alias_of(underlying: TypeRef) -> TypeAlias {
    TypeAlias { identifier: id(), underlying, scope: Scope::default(), attributes: Vec::new(), comment: None, span: sp() }
}

//@ prop: C20
//@ family: K20-catalogue
//@ tier: quick
//@ functions: TypeAlias::visit_with, TypeRef::visit_with (Sequence and Dictionary arms), AsTypes::concrete_type through WeakPtr<dyn Type>
//@ inst: recording Visitor; hand-built TypeAlias of Sequence<Dictionary<K, V>> (K, V unresolved references); optionality flags symbolic
//@ inputs: is_optional of the alias's type and of the element type
//@ oracle: recorded == [alias, its type, element type, key type, value type], each by address, nothing else: nested types depth-first, key before value
//@ bound: unwind 4 (also bounds the recursion of TypeRef::visit_with); nesting depth 2
//@ timeout: 900
#[kani::proof]
#[kani::unwind(4)]
fn k20_alias_seq_of_dict() {
    let inner_dict = OwnedPtr::new(Dictionary { key_type: unpatched(), value_type: unpatched() });
    let mut elem = patched(upcast_weak_as!(inner_dict.downgrade(), dyn Type));
    elem.is_optional = kani::any();
    let seq_of_dict = OwnedPtr::new(Sequence { element_type: elem });
    let mut u = patched(upcast_weak_as!(seq_of_dict.downgrade(), dyn Type));
    u.is_optional = kani::any();
    let a = alias_of(u);
    let mut r = Rec::new();
    a.visit_with(&mut r);
    kani::cover!(a.underlying.is_optional, "optional outer type reachable");
    let sd = seq_of_dict.borrow();
    let d = inner_dict.borrow();
    assert!(r.n == 5, "exactly alias + 4 type references");
    assert!(r.is(0, ALIAS, &a) && r.is(1, TYPEREF, &a.underlying), "alias, then its type");
    assert!(r.is(2, TYPEREF, &sd.element_type), "the element type follows the sequence");
    assert!(r.is(3, TYPEREF, &d.key_type) && r.is(4, TYPEREF, &d.value_type), "then the nested dictionary's key and value, in that order");
    core::mem::forget(a);
    core::mem::forget(seq_of_dict);
    core::mem::forget(inner_dict);
}

//@ prop: C20
//@ family: K20-catalogue
//@ tier: quick
//@ functions: TypeAlias::visit_with, TypeRef::visit_with (ResultType arm)
//@ inst: recording Visitor; hand-built TypeAlias of Result<S, F> (S, F unresolved references); optionality of the alias's type symbolic
//@ inputs: is_optional of the alias's type
//@ oracle: recorded == [alias, its type, success type, failure type], each by address, nothing else
//@ bound: unwind 4 (bounds the recursion of TypeRef::visit_with and covers an iterative traversal of the 3 type references); unwind 5 exceeds 12 GB
//@ timeout: 900
#[kani::proof]
#[kani::unwind(4)]
fn k20_alias_result() {
    let res = OwnedPtr::new(ResultType { success_type: unpatched(), failure_type: unpatched() });
    let mut u = patched(upcast_weak_as!(res.downgrade(), dyn Type));
    u.is_optional = kani::any();
    let a = alias_of(u);
    let mut r = Rec::new();
    a.visit_with(&mut r);
    kani::cover!(a.underlying.is_optional, "optional Result reachable");
    let rr = res.borrow();
    assert!(r.n == 4, "exactly alias + 3 type references");
    assert!(r.is(0, ALIAS, &a) && r.is(1, TYPEREF, &a.underlying), "alias, then its type");
    assert!(r.is(2, TYPEREF, &rr.success_type) && r.is(3, TYPEREF, &rr.failure_type), "success, then failure");
    core::mem::forget(a);
    core::mem::forget(res);
}

//@ prop: C20
//@ family: K20-catalogue
//@ tier: quick
//@ functions: TypeAlias::visit_with, TypeRef::visit_with (ResultType arm descending into its success type)
//@ inst: recording Visitor; hand-built TypeAlias of Result<Sequence<E>, F> (E, F unresolved references)
//@ inputs: is_optional of the success type
//@ oracle: recorded == [alias, its type, success type, element type nested inside the success type, failure type], each by address, nothing else: the success type is descended into before the failure type is presented
//@ bound: unwind 4; nesting depth 2
//@ timeout: 900
#[kani::proof]
#[kani::unwind(4)]
fn k20_alias_result_of_seq() {
    let inner_seq = OwnedPtr::new(Sequence { element_type: unpatched() });
    let mut success = patched(upcast_weak_as!(inner_seq.downgrade(), dyn Type));
    success.is_optional = kani::any();
    let res = OwnedPtr::new(ResultType { success_type: success, failure_type: unpatched() });
    let a = alias_of(patched(upcast_weak_as!(res.downgrade(), dyn Type)));
    let mut r = Rec::new();
    a.visit_with(&mut r);
    let rr = res.borrow();
    let s = inner_seq.borrow();
    kani::cover!(rr.success_type.is_optional, "optional success type reachable");
    assert!(r.n == 5, "exactly alias + 4 type references");
    assert!(r.is(0, ALIAS, &a) && r.is(1, TYPEREF, &a.underlying), "alias, then its type");
    assert!(r.is(2, TYPEREF, &rr.success_type) && r.is(3, TYPEREF, &s.element_type), "success type, then the element type nested inside it");
    assert!(r.is(4, TYPEREF, &rr.failure_type), "the failure type comes after everything of the success type");
    core::mem::forget(a);
    core::mem::forget(res);
    core::mem::forget(inner_seq);
}

//@ prop: C20
//@ family: K20-catalogue
//@ tier: quick
//@ functions: TypeAlias::visit_with, TypeRef::visit_with (Dictionary and Sequence arms)
//@ inst: recording Visitor; hand-built TypeAlias of Dictionary<K, Sequence<E>> (K, E unresolved references); optionality of the value type symbolic
//@ inputs: is_optional of the value type
//@ oracle: recorded == [alias, its type, key type, value type, element type nested inside the value], each by address, nothing else
//@ bound: unwind 4; nesting depth 2
//@ timeout: 900
#[kani::proof]
#[kani::unwind(4)]
fn k20_alias_dict_of_seq() {
    let inner_seq = OwnedPtr::new(Sequence { element_type: unpatched() });
    let mut value = patched(upcast_weak_as!(inner_seq.downgrade(), dyn Type));
    value.is_optional = kani::any();
    let dict_of_seq = OwnedPtr::new(Dictionary { key_type: unpatched(), value_type: value });
    let a = alias_of(patched(upcast_weak_as!(dict_of_seq.downgrade(), dyn Type)));
    let mut r = Rec::new();
    a.visit_with(&mut r);
    let ds = dict_of_seq.borrow();
    let s = inner_seq.borrow();
    kani::cover!(ds.value_type.is_optional, "optional value type reachable");
    assert!(r.n == 5, "exactly alias + 4 type references");
    assert!(r.is(0, ALIAS, &a) && r.is(1, TYPEREF, &a.underlying), "alias, then its type");
    assert!(r.is(2, TYPEREF, &ds.key_type) && r.is(3, TYPEREF, &ds.value_type), "key, then value");
    assert!(r.is(4, TYPEREF, &s.element_type), "then the element type nested inside the value");
    core::mem::forget(a);
    core::mem::forget(dict_of_seq);
    core::mem::forget(inner_seq);
}

//@ prop: C20
//@ family: K20-catalogue
//@ tier: quick
//@ functions: TypeAlias::visit_with, TypeRef::visit_with (ResultType arm descending into its failure type)
//@ inst: recording Visitor; hand-built TypeAlias of Result<S, Sequence<E>> (S, E unresolved references)
//@ inputs: is_optional of the failure type
//@ oracle: recorded == [alias, its type, success type, failure type, element type nested inside the failure type], each by address, nothing else: the failure type is descended into as well
//@ bound: unwind 4; nesting depth 2
//@ timeout: 900
#[kani::proof]
#[kani::unwind(4)]
fn k20_alias_result_failure_seq() {
    let inner_seq = OwnedPtr::new(Sequence { element_type: unpatched() });
    let mut failure = patched(upcast_weak_as!(inner_seq.downgrade(), dyn Type));
    failure.is_optional = kani::any();
    let res = OwnedPtr::new(ResultType { success_type: unpatched(), failure_type: failure });
    let a = alias_of(patched(upcast_weak_as!(res.downgrade(), dyn Type)));
    let mut r = Rec::new();
    a.visit_with(&mut r);
    let rr = res.borrow();
    let s = inner_seq.borrow();
    kani::cover!(rr.failure_type.is_optional, "optional failure type reachable");
    assert!(r.n == 5, "exactly alias + 4 type references");
    assert!(r.is(0, ALIAS, &a) && r.is(1, TYPEREF, &a.underlying), "alias, then its type");
    assert!(r.is(2, TYPEREF, &rr.success_type) && r.is(3, TYPEREF, &rr.failure_type), "success type, then failure type");
    assert!(r.is(4, TYPEREF, &s.element_type), "then the element type nested inside the failure type");
    core::mem::forget(a);
    core::mem::forget(res);
    core::mem::forget(inner_seq);
}

//@ prop: C20
//@ family: K20-catalogue
//@ tier: quick
//@ functions: TypeAlias::visit_with, TypeRef::visit_with (Dictionary arm descending into its key type)
//@ inst: recording Visitor; hand-built TypeAlias of Dictionary<Sequence<E>, V> (E, V unresolved references; an illegal key, which the validators can only report if the visitor presents it)
//@ inputs: is_optional of the key type
//@ oracle: recorded == [alias, its type, key type, element type nested inside the key, value type], each by address, nothing else
//@ bound: unwind 4; nesting depth 2
//@ timeout: 900
#[kani::proof]
#[kani::unwind(4)]
fn k20_alias_dict_key_seq() {
    let inner_seq = OwnedPtr::new(Sequence { element_type: unpatched() });
    let mut key = patched(upcast_weak_as!(inner_seq.downgrade(), dyn Type));
    key.is_optional = kani::any();
    let dict = OwnedPtr::new(Dictionary { key_type: key, value_type: unpatched() });
    let a = alias_of(patched(upcast_weak_as!(dict.downgrade(), dyn Type)));
    let mut r = Rec::new();
    a.visit_with(&mut r);
    let d = dict.borrow();
    let s = inner_seq.borrow();
    kani::cover!(d.key_type.is_optional, "optional key type reachable");
    assert!(r.n == 5, "exactly alias + 4 type references");
    assert!(r.is(0, ALIAS, &a) && r.is(1, TYPEREF, &a.underlying), "alias, then its type");
    assert!(r.is(2, TYPEREF, &d.key_type) && r.is(3, TYPEREF, &s.element_type), "key type, then the element type nested inside it");
    assert!(r.is(4, TYPEREF, &d.value_type), "the value type comes after everything of the key type");
    core::mem::forget(a);
    core::mem::forget(dict);
    core::mem::forget(inner_seq);
}

//@ prop: C20
//@ family: K20-catalogue
//@ tier: quick
//@ functions: SliceFile::visit_with, Module::visit_with, CustomType::visit_with, Struct::visit_with, Definition dispatch
//@ inst: recording Visitor; hand-built SliceFile with or without a module (two concrete layouts) and two definitions: a custom type, then an empty struct
//@ inputs: module present or not
//@ oracle: recorded == [file, module?, custom type, struct]: the file first, then its module, then the definitions in source order; nothing else
//@ bound: unwind 4
#[kani::proof]
#[kani::unwind(4)]
fn k20_file_definitions() {
    let has_module: bool = kani::any();
    let m = OwnedPtr::new(Module { identifier: id(), attributes: Vec::new(), span: sp() });
    let c = OwnedPtr::new(CustomType { identifier: id(), scope: Scope::default(), attributes: Vec::new(), comment: None, span: sp() });
    let s = OwnedPtr::new(Struct { identifier: id(), fields: Vec::new(), is_compact: false, scope: Scope::default(), attributes: Vec::new(), comment: None, span: sp() });
    let mut contents = Vec::with_capacity(2);
    contents.push(Definition::CustomType(c.downgrade()));
    contents.push(Definition::Struct(s.downgrade()));
    let file = SliceFile {
        filename: String::new(),
        relative_path: String::new(),
        raw_text: String::new(),
        module: if has_module { Some(m.downgrade()) } else { None },
        attributes: Vec::new(),
        contents,
        is_source: true,
    };
    let mut r = Rec::new();
    file.visit_with(&mut r);
    kani::cover!(has_module, "file with a module reachable");
    kani::cover!(!has_module, "module-less file reachable");
    let k = has_module as usize;
    assert!(r.n == 3 + k, "every element is presented exactly once, nothing else");
    assert!(r.is(0, FILE, &file), "the file comes first");
    if has_module {
        assert!(r.is(1, MODULE, m.borrow()), "then its module");
    }
    assert!(r.is(1 + k, CUSTOM, c.borrow()) && r.is(2 + k, STRUCT, s.borrow()), "then the definitions in source order");
    core::mem::forget(file);
    core::mem::forget(m);
    core::mem::forget(c);
    core::mem::forget(s);
}

// Files with fewer definitions: the number of definitions is concrete per harness (a vector whose LENGTH is symbolic costs
// > 12 GB here), the presence of the module is symbolic.
macro_rules! file_with_n_definitions {
    ($n:expr) => {{
        let has_module: bool = kani::any();
        let m = OwnedPtr::new(Module { identifier: id(), attributes: Vec::new(), span: sp() });
        let c = OwnedPtr::new(CustomType { identifier: id(), scope: Scope::default(), attributes: Vec::new(), comment: None, span: sp() });
        let mut contents = Vec::with_capacity(1);
        if $n >= 1 {
            contents.push(Definition::CustomType(c.downgrade()));
        }
        let file = SliceFile {
            filename: String::new(),
            relative_path: String::new(),
            raw_text: String::new(),
            module: if has_module { Some(m.downgrade()) } else { None },
            attributes: Vec::new(),
            contents,
            is_source: true,
        };
        let mut r = Rec::new();
        file.visit_with(&mut r);
        kani::cover!(has_module, "file with a module reachable");
        kani::cover!(!has_module, "module-less file reachable");
        let k = has_module as usize;
        assert!(r.n == 1 + k + $n, "every element is presented exactly once, nothing else");
        assert!(r.is(0, FILE, &file), "the file comes first");
        if has_module {
            assert!(r.is(1, MODULE, m.borrow()), "then its module, whether or not definitions follow");
        }
        if $n >= 1 {
            assert!(r.is(1 + k, CUSTOM, c.borrow()), "then the definition");
        }
        core::mem::forget(file);
        core::mem::forget(m);
        core::mem::forget(c);
    }};
}

//@ prop: C20
//@ family: K20-catalogue
//@ tier: quick
//@ functions: SliceFile::visit_with, Module::visit_with
//@ inst: recording Visitor; hand-built SliceFile WITHOUT definitions, with or without a module: the file that declares only its module, and the empty file
//@ inputs: module present or not
//@ oracle: recorded == [file, module?]: the module is presented although no definition follows; an empty file presents only itself
//@ bound: unwind 4
#[kani::proof]
#[kani::unwind(4)]
fn k20_file_no_definitions() {
    file_with_n_definitions!(0usize)
}

//@ prop: C20
//@ family: K20-catalogue
//@ tier: quick
//@ functions: SliceFile::visit_with, Module::visit_with, CustomType::visit_with, Definition dispatch
//@ inst: recording Visitor; hand-built SliceFile with exactly one definition (a custom type), with or without a module
//@ inputs: module present or not
//@ oracle: recorded == [file, module?, custom type]; nothing else
//@ bound: unwind 4
#[kani::proof]
#[kani::unwind(4)]
fn k20_file_one_definition() {
    file_with_n_definitions!(1usize)
}
