//@@ group: slib
//@@ target: slicec/src/diagnostics/diagnostic.rs
//
// C07 (phase gating and exit-status arithmetic) and the level-rewrite kernel of C13: the diagnostics container and
// CompilationState::apply, driven with diagnostics of symbolic kind.  Child module of diagnostics::diagnostic, so the
// private `kind` / `level` fields and Diagnostics' vector are set directly.
use super::*;
use crate::compilation_state::CompilationState;

fn stub_random_state() -> std::hash::RandomState {
    unsafe { core::mem::transmute::<(u64, u64), std::hash::RandomState>((0, 0)) }
}

/// 0, 1: two error kinds; 2, 3, 4: three lint kinds (strings empty: message text is not the subject)
fn diag_of(k: u8) -> Diagnostic {
    if k == 0 {
        Diagnostic::new(Error::TagValueOutOfBounds)
    } else if k == 1 {
        Diagnostic::new(Error::ReturnTuplesMustContainAtLeastTwoElements)
    } else if k == 2 {
        Diagnostic::new(Lint::MalformedDocComment { message: String::new() })
    } else if k == 3 {
        Diagnostic::new(Lint::BrokenDocLink { message: String::new() })
    } else {
        Diagnostic::new(Lint::DuplicateFile { path: String::new() })
    }
}

fn phase(state: &mut CompilationState) {
    // a phase that leaves a trace: one more (lint) diagnostic
    Diagnostic::new(Lint::IncorrectDocComment { message: String::new() }).push_into(&mut state.diagnostics);
}

//@ prop: C07
//@ family: K07-gate
//@ tier: quick
//@ functions: CompilationState::apply, CompilationState::apply_unsafe, Diagnostics::has_errors, Diagnostic::new, Diagnostic::push_into
//@ inst: CompilationState over an empty Ast and no files
//@ inputs: 2 recorded diagnostics, each of symbolic kind (2 error kinds, 3 lint kinds: all 25 combinations), symbolic choice apply / apply_unsafe
//@ oracle: the phase function runs iff no error-KIND diagnostic is recorded (a lint never blocks, an error always does, wherever it stands); has_errors() says the same
//@ stubs: std::hash::RandomState::new -> fixed keys (Ast holds a HashMap)
//@ bound: unwind 5; exactly 2 diagnostics
#[kani::proof]
#[kani::unwind(5)]
#[kani::stub(std::hash::RandomState::new, stub_random_state)]
fn k07_phase_gating() {
    let k0: u8 = kani::any();
    let k1: u8 = kani::any();
    kani::assume(k0 < 5 && k1 < 5);
    // only the public API is used to build and observe the state, so a change of Diagnostics' representation is followed
    let mut diagnostics = Diagnostics::new();
    diag_of(k0).push_into(&mut diagnostics);
    diag_of(k1).push_into(&mut diagnostics);
    let any_error = k0 < 2 || k1 < 2;
    assert!(diagnostics.has_errors() == any_error, "has_errors() is true exactly when an error-kind diagnostic is recorded");
    let mut state = CompilationState { ast: crate::ast::Ast::verif_empty(), diagnostics, files: Vec::new() };
    let via_unsafe: bool = kani::any();
    if via_unsafe {
        unsafe { state.apply_unsafe(phase) };
    } else {
        state.apply(phase);
    }
    let CompilationState { ast, diagnostics, files } = state;
    let after = diagnostics.into_inner();
    let ran = after.len() == 3;
    kani::cover!(!any_error, "two lints, phase runs reachable");
    kani::cover!(k1 < 2 && k0 >= 2, "error recorded last reachable");
    kani::cover!(k0 < 2 && k1 >= 2 && via_unsafe, "error recorded first (a lint after it), apply_unsafe reachable");
    assert!(ran == !any_error, "a later phase runs exactly when no error was recorded so far");
    assert!(ran || after.len() == 2, "a skipped phase leaves the diagnostics untouched");
    core::mem::forget(after);
    core::mem::forget(ast);
    core::mem::forget(files);
}

//@ prop: C07
//@ family: K07-totals
//@ tier: quick
//@ functions: diagnostics::get_totals, Diagnostics::extend, Diagnostics::into_inner, Diagnostic::level
//@ inst: Vec<Diagnostic> of 3 entries, merged from two containers (1 + 2) with Diagnostics::extend
//@ inputs: per diagnostic: symbolic kind (2 error kinds, 3 lint kinds) and, for lints, a symbolic level in {Warning, Allowed} (what into_updated may leave behind): all 5^3 x 2^3 combinations
//@ oracle: get_totals == (number of Warning-level, number of Error-level); Allowed counted nowhere; error total == 0 iff no error-kind diagnostic (the exit-status arithmetic of main); extend keeps every diagnostic
//@ stubs: none
//@ bound: unwind 5; exactly 3 diagnostics
#[kani::proof]
#[kani::unwind(5)]
fn k07_totals() {
    let kinds: [u8; 3] = kani::any();
    kani::assume(kinds[0] < 5 && kinds[1] < 5 && kinds[2] < 5);
    let allowed: [bool; 3] = kani::any();
    let mut a = Diagnostics::new();
    let mut b = Diagnostics::new();
    let (mut errs, mut warns) = (0usize, 0usize);
    let mut i = 0;
    while i < 3 {
        let mut d = diag_of(kinds[i]);
        if kinds[i] >= 2 && allowed[i] {
            d.level = DiagnosticLevel::Allowed;
        }
        if kinds[i] < 2 {
            errs += 1;
        } else if !allowed[i] {
            warns += 1;
        }
        if i < 1 {
            d.push_into(&mut a);
        } else {
            d.push_into(&mut b);
        }
        i += 1;
    }
    a.extend(b);
    let all = a.into_inner();
    kani::cover!(errs == 1 && warns == 1, "one error, one warning, one allowed lint reachable");
    kani::cover!(errs == 0 && warns == 0, "three allowed lints reachable");
    kani::cover!(errs == 3, "three errors reachable");
    assert!(all.len() == 3, "extend keeps every diagnostic of both containers");
    let (tw, te) = get_totals(&all);
    assert!(te == errs, "error total is the number of error diagnostics");
    assert!(tw == warns, "warning total is the number of lints not allowed; allowed lints are counted nowhere");
    assert!((te == 0) == (errs == 0), "the exit status is non-zero exactly when an error diagnostic exists");
    core::mem::forget(all);
}

// (A C13 kernel - Diagnostics::into_updated with an empty Ast, no files, ONE span-less, scope-less diagnostic and one
// concrete --allow value - was built and dropped: even a single fully concrete case did not leave symbolic execution in
// 25 min. The diagnostic is read back from the heap vector it was moved into, its Option<span>/Option<scope> tags are no
// longer constants for CBMC, and the file-attribute and entity-scope branches - find_element::<dyn Entity>, all_attributes
// over every Attributable implementation - become reachable.)
