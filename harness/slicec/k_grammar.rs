//@@ group: slib
//@@ target: slicec/src/parsers/slice/grammar.rs
//
// Scalar / string kernels of the Slice grammar actions (C02, C04): functions that BUILD values but never walk the
// AST graph.  A real `Parser` is constructed over an empty `Ast` (injected constructor, see vf.py) and a real
// `Diagnostics`; message formatting and the hash-seed syscall are stubbed (DESIGN 2.3).
use super::*;
use crate::ast::Ast;
use crate::diagnostics::Diagnostics;
use crate::slice_file::Location;

fn stub_random_state() -> std::hash::RandomState {
    unsafe { core::mem::transmute::<(u64, u64), std::hash::RandomState>((0, 0)) }
}
fn stub_format(_a: core::fmt::Arguments<'_>) -> String {
    String::new()
}
fn sp() -> Span {
    Span { start: Location { row: 1, col: 1 }, end: Location { row: 1, col: 1 }, file: String::new() }
}

//@ prop: C04 C02
//@ family: K04-tagval
//@ tier: quick
//@ functions: parsers::slice::grammar::parse_tag_value, Diagnostic::push_into, Diagnostics::has_errors
//@ inst: real Parser over an empty Ast and a real Diagnostics
//@ inputs: tag literal value: i128, all 2^128 values
//@ oracle: an error diagnostic is pushed iff the value lies outside 0..=2^31-1 (the language rule); inside the range the tag returned equals the value
//@ stubs: std::hash::RandomState::new -> fixed keys (getrandom syscall); std::fmt::format -> empty string (message text not asserted)
//@ bound: unwind 4
#[kani::proof]
#[kani::unwind(4)]
#[kani::stub(std::hash::RandomState::new, stub_random_state)]
#[kani::stub(std::fmt::format, stub_format)]
fn k04_tag_value_all_i128() {
    let mut ast = Ast::verif_empty();
    let mut diagnostics = Diagnostics::new();
    let mut parser = Parser::new("f", &mut ast, &mut diagnostics);
    let v: i128 = kani::any();
    let out = parse_tag_value(&mut parser, Integer { value: v, span: sp() });
    let in_range = v >= 0 && v <= 2147483647;
    kani::cover!(v == 2147483647, "2^31-1 reachable");
    kani::cover!(v == 2147483648, "2^31 reachable");
    kani::cover!(v == -1, "-1 reachable");
    if in_range {
        assert!(out.value as i128 == v, "a tag inside the range is kept as written");
    }
    core::mem::forget(out);
    drop(parser);
    assert!(diagnostics.has_errors() == !in_range, "a tag is diagnosed exactly when it lies outside 0..=2^31-1");
    core::mem::forget(diagnostics);
    core::mem::forget(ast);
}

//@ prop: C02
//@ family: K02-enumerator
//@ tier: quick
//@ functions: parsers::slice::grammar::construct_enumerator, Enumerator::value, Parser::previous_enumerator_value
//@ inst: real Parser over an empty Ast
//@ inputs: previous enumerator value: Option<i128> (all values), explicit value: Option<i128> (all values)
//@ oracle: value == the explicit literal if written, else previous + 1 (wrapping), else 0; the parser's previous value is updated to it
//@ stubs: std::hash::RandomState::new, std::fmt::format
//@ bound: unwind 4; no fields, no attributes, no doc comment on the enumerator
#[kani::proof]
#[kani::unwind(4)]
#[kani::stub(std::hash::RandomState::new, stub_random_state)]
#[kani::stub(std::fmt::format, stub_format)]
fn k02_enumerator_numbering() {
    let mut ast = Ast::verif_empty();
    let mut diagnostics = Diagnostics::new();
    let mut parser = Parser::new("f", &mut ast, &mut diagnostics);
    let has_prev: bool = kani::any();
    let prev: i128 = kani::any();
    let has_expl: bool = kani::any();
    let expl: i128 = kani::any();
    parser.previous_enumerator_value = if has_prev { Some(prev) } else { None };
    let id = Identifier { value: String::new(), span: sp() };
    let e = construct_enumerator(
        &mut parser,
        (Vec::new(), Vec::new()),
        id,
        None,
        if has_expl { Some(Integer { value: expl, span: sp() }) } else { None },
        sp(),
    );
    let got = e.borrow().value();
    let want = if has_expl { expl } else if has_prev { prev.wrapping_add(1) } else { 0 };
    kani::cover!(!has_expl && has_prev && prev == -1, "implicit value after -1 reachable");
    kani::cover!(!has_expl && !has_prev, "first implicit enumerator reachable");
    kani::cover!(has_expl && has_prev && expl < prev, "explicit value below the previous one reachable");
    assert!(got == want, "enumerator value is the written literal, else previous + 1, else 0");
    assert!(parser.previous_enumerator_value == Some(want), "the parser remembers this value for the next enumerator");
    core::mem::forget(e);
    drop(parser);
    core::mem::forget(diagnostics);
    core::mem::forget(ast);
}

//@ prop: C04
//@ family: K04-retuple
//@ tier: quick
//@ functions: parsers::slice::grammar::check_return_tuple
//@ inst: real Parser over an empty Ast; return tuple = slice of 0..=2 hand-built parameters
//@ inputs: number of return-tuple members n in 0..=2
//@ oracle: an error is pushed iff n < 2
//@ stubs: std::hash::RandomState::new, std::fmt::format
//@ bound: unwind 4
#[kani::proof]
#[kani::unwind(4)]
#[kani::stub(std::hash::RandomState::new, stub_random_state)]
#[kani::stub(std::fmt::format, stub_format)]
fn k04_return_tuple() {
    let mut ast = Ast::verif_empty();
    let mut diagnostics = Diagnostics::new();
    let mut parser = Parser::new("f", &mut ast, &mut diagnostics);
    let n: usize = kani::any();
    kani::assume(n <= 2);
    let mut v: Vec<OwnedPtr<Parameter>> = Vec::with_capacity(2);
    let mut i = 0;
    while i < 2 {
        if i < n {
            v.push(OwnedPtr::new(Parameter {
                identifier: Identifier { value: String::new(), span: sp() },
                data_type: TypeRef {
                    definition: TypeRefDefinition::Unpatched(Identifier { value: String::new(), span: sp() }),
                    is_optional: false,
                    scope: Scope::default(),
                    attributes: Vec::new(),
                    span: sp(),
                },
                tag: None,
                is_streamed: false,
                parent: WeakPtr::create_uninitialized(),
                scope: Scope::default(),
                attributes: Vec::new(),
                span: sp(),
            }));
        }
        i += 1;
    }
    check_return_tuple(&mut parser, &v[..], sp());
    kani::cover!(n == 1, "one-element tuple reachable");
    kani::cover!(n == 2, "two-element tuple reachable");
    core::mem::forget(v);
    drop(parser);
    assert!(diagnostics.has_errors() == (n < 2), "a return tuple is diagnosed exactly when it has fewer than two members");
    core::mem::forget(diagnostics);
    core::mem::forget(ast);
}

// ---- string literal unescaping ------------------------------------------------------------------------------
/// reference: drop each unescaped backslash, keep the character after it verbatim
fn ref_unescape(input: &[u8], n: usize, out: &mut [u8; 4]) -> usize {
    let mut o = 0;
    let mut esc = false;
    let mut i = 0;
    while i < n {
        let c = input[i];
        if c == b'\\' && !esc {
            esc = true;
        } else {
            out[o] = c;
            o += 1;
            esc = false;
        }
        i += 1;
    }
    o
}

macro_rules! unescape_n {
    ($n:expr) => {{
        let bytes: [u8; $n] = kani::any();
        let mut i = 0;
        while i < $n {
            kani::assume(bytes[i] < 0x80);
            i += 1;
        }
        let s = unsafe { core::str::from_utf8_unchecked(&bytes) };
        let got = unescape_string_literal(s);
        let mut exp = [0u8; 4];
        let en = ref_unescape(&bytes, $n, &mut exp);
        kani::cover!(en + 1 == $n, "one escape removed reachable");
        kani::cover!(en == $n, "no escape reachable");
        assert!(got.len() == en, "unescaping removes exactly the unescaped backslashes");
        let gb = got.as_bytes();
        let mut i = 0;
        while i < $n {
            if i < en {
                assert!(gb[i] == exp[i], "every other character is kept verbatim, in order");
            }
            i += 1;
        }
        core::mem::forget(got);
    }};
}

//@ prop: C02
//@ family: K02-unescape
//@ tier: quick
//@ functions: parsers::slice::grammar::unescape_string_literal (Chars, Filter, String::from_iter)
//@ inst: &str of exactly 2 ASCII characters
//@ inputs: every 2-character ASCII string (backslash, quote, any other)
//@ oracle: reference unescaper (drop each unescaped backslash, keep the next character verbatim): same length, same bytes
//@ bound: unwind 5
#[kani::proof]
#[kani::unwind(5)]
fn k02_unescape_2() {
    unescape_n!(2)
}

//@ prop: C02
//@ family: K02-unescape
//@ tier: thorough
//@ functions: parsers::slice::grammar::unescape_string_literal
//@ inst: &str of exactly 3 ASCII characters
//@ inputs: every 3-character ASCII string (incl. "\\\\x", "\\x\\", "x\\\\")
//@ oracle: as k02_unescape_2
//@ bound: unwind 6
//@ timeout: 1200
#[kani::proof]
#[kani::unwind(6)]
fn k02_unescape_3() {
    unescape_n!(3)
}

//@ prop: C02
//@ family: K02-unescape
//@ tier: quick
//@ functions: parsers::slice::grammar::unescape_string_literal
//@ inst: &str of 3 bytes: a backslash followed by one arbitrary 2-byte UTF-8 scalar (U+0080..U+07FF)
//@ inputs: the scalar's two bytes (all valid 2-byte encodings)
//@ oracle: the backslash is removed and the non-ASCII scalar is kept verbatim, byte for byte
//@ bound: unwind 5
//@ timeout: 900
#[kani::proof]
#[kani::unwind(5)]
fn k02_unescape_non_ascii() {
    let b1: u8 = kani::any();
    let b2: u8 = kani::any();
    kani::assume(b1 >= 0xC2 && b1 <= 0xDF && b2 >= 0x80 && b2 <= 0xBF);
    kani::cover!(b1 == 0xC3 && b2 == 0xA9, "escape followed by U+00E9 reachable");
    let bytes = [b'\\', b1, b2];
    let s = unsafe { core::str::from_utf8_unchecked(&bytes) };
    let got = unescape_string_literal(s);
    let gb = got.as_bytes();
    assert!(gb.len() == 2 && gb[0] == b1 && gb[1] == b2, "the escaped non-ASCII character is kept verbatim");
    core::mem::forget(got);
}

//@ prop: C02
//@ family: K02-enumerator
//@ tier: quick
//@ functions: parsers::slice::grammar::construct_enum (reset of the carried enumerator value), construct_enumerator
//@ inst: real Parser over an empty Ast; an enum without enumerators is completed while the parser carries a value from the enum before it, then the first enumerator of the next enum is constructed
//@ inputs: the carried value (any i128), is_compact / is_unchecked flags
//@ oracle: "previous value + 1 starting from 0" per enum: the first implicit enumerator after a completed enum has value 0 whatever the previous enum ended with
//@ stubs: std::hash::RandomState::new, std::fmt::format
//@ bound: unwind 4; the completed enum has no enumerators, no underlying type, no doc comment
#[kani::proof]
#[kani::unwind(4)]
#[kani::stub(std::hash::RandomState::new, stub_random_state)]
#[kani::stub(std::fmt::format, stub_format)]
fn k02_enumerator_restart_per_enum() {
    let mut ast = Ast::verif_empty();
    let mut diagnostics = Diagnostics::new();
    let mut parser = Parser::new("f", &mut ast, &mut diagnostics);
    let carried: i128 = kani::any();
    parser.previous_enumerator_value = Some(carried);
    let e = construct_enum(
        &mut parser,
        (Vec::new(), Vec::new()),
        kani::any(),
        kani::any(),
        Identifier { value: String::new(), span: sp() },
        None,
        Vec::new(),
        sp(),
    );
    let next = construct_enumerator(&mut parser, (Vec::new(), Vec::new()), Identifier { value: String::new(), span: sp() }, None, None, sp());
    kani::cover!(carried == 127, "previous enum ended with 127 reachable");
    kani::cover!(carried == -1, "previous enum ended with -1 reachable");
    assert!(next.borrow().value() == 0, "implicit numbering restarts from 0 in every enum");
    core::mem::forget(next);
    core::mem::forget(e);
    drop(parser);
    core::mem::forget(diagnostics);
    core::mem::forget(ast);
}

// (An integer-literal kernel - try_parse_integer on every 4-character string "0???" over {0,1,9,a,b,f,x,_} against a
// reference parser - was built and dropped: str::replace building a String plus i128::from_str_radix made 1.35 M steps
// and exhausted 24 GB in the solver.)
