//@@ group: slib
//@@ target: slicec/src/grammar/elements/primitive.rs
//
// C04: the numeric bounds table that decides "enumerator values within the underlying type's range", against the
// language rule, and tied at full width to what the codec really accepts for the variable-width kinds.
use super::*;
use slice_codec::buffer::slice::{SliceInputSource, SliceOutputTarget};
use slice_codec::buffer::{InputSource, OutputTarget};
use slice_codec::decoder::Decoder;
use slice_codec::encoder::Encoder;

fn kind(k: u8) -> Primitive {
    match k {
        0 => Primitive::Bool,
        1 => Primitive::Int8,
        2 => Primitive::UInt8,
        3 => Primitive::Int16,
        4 => Primitive::UInt16,
        5 => Primitive::Int32,
        6 => Primitive::UInt32,
        7 => Primitive::VarInt32,
        8 => Primitive::VarUInt32,
        9 => Primitive::Int64,
        10 => Primitive::UInt64,
        11 => Primitive::VarInt62,
        12 => Primitive::VarUInt62,
        13 => Primitive::Float32,
        14 => Primitive::Float64,
        _ => Primitive::String,
    }
}

/// the language rule: (signed?, bits) per integral kind; var*62 are 62-bit
fn rule(k: u8) -> Option<(bool, u32)> {
    match k {
        1 => Some((true, 8)),
        2 => Some((false, 8)),
        3 => Some((true, 16)),
        4 => Some((false, 16)),
        5 | 7 => Some((true, 32)),
        6 | 8 => Some((false, 32)),
        9 => Some((true, 64)),
        10 => Some((false, 64)),
        11 => Some((true, 62)),
        12 => Some((false, 62)),
        _ => None,
    }
}

//@ prop: C04
//@ family: K04-bounds
//@ tier: quick
//@ functions: Primitive::numeric_bounds, Primitive::is_integral
//@ inst: all 16 primitive kinds (symbolic selector)
//@ inputs: kind in 0..16
//@ oracle: Some(bounds) iff the kind is integral iff the language rule lists it; bounds == (-2^(n-1), 2^(n-1)-1) for signed n-bit kinds and (0, 2^n-1) for unsigned ones, n from the rule table (62 for the var*62 kinds)
//@ bound: none (loop-free)
#[kani::proof]
fn k04_numeric_bounds_table() {
    let k: u8 = kani::any();
    kani::assume(k < 16);
    let p = kind(k);
    let b = p.numeric_bounds();
    kani::cover!(k == 11, "varint62 reachable");
    kani::cover!(k == 15, "string reachable");
    assert!(b.is_some() == p.is_integral(), "bounds exist exactly for integral kinds");
    match (b, rule(k)) {
        (Some((lo, hi)), Some((signed, bits))) => {
            let one: i128 = 1;
            if signed {
                assert!(lo == -(one << (bits - 1)) && hi == (one << (bits - 1)) - 1, "signed n-bit kind: -2^(n-1) ..= 2^(n-1)-1");
            } else {
                assert!(lo == 0 && hi == (one << bits) - 1, "unsigned n-bit kind: 0 ..= 2^n-1");
            }
        }
        (None, None) => {}
        _ => assert!(false, "the set of integral kinds equals the language rule's"),
    }
}

//@ prop: C04 C10
//@ family: K04-bounds
//@ tier: quick
//@ functions: Primitive::numeric_bounds (VarInt62, VarUInt62, VarInt32, VarUInt32), slice_codec Encoder::encode_varint / encode_varuint, Decoder::decode_varint::<i32> / decode_varuint::<u32>
//@ inst: Encoder<SliceOutputTarget>, Decoder<SliceInputSource>
//@ inputs: v: i64 all values, u: u64 all values
//@ oracle: v lies inside numeric_bounds(VarInt62) iff the real encode_varint accepts it; u inside numeric_bounds(VarUInt62) iff encode_varuint accepts it; an accepted v lies inside numeric_bounds(VarInt32) iff decode_varint::<i32> of its encoding succeeds (likewise VarUInt32 / u32): the enumerator-range rule and the codec agree at every boundary
//@ bound: unwind 10
#[kani::proof]
#[kani::unwind(10)]
fn k04_bounds_agree_with_codec() {
    let v: i64 = kani::any();
    let u: u64 = kani::any();
    let (lo62, hi62) = Primitive::VarInt62.numeric_bounds().unwrap();
    let (ulo62, uhi62) = Primitive::VarUInt62.numeric_bounds().unwrap();
    let (lo32, hi32) = Primitive::VarInt32.numeric_bounds().unwrap();
    let (ulo32, uhi32) = Primitive::VarUInt32.numeric_bounds().unwrap();
    let mut buf = [0u8; 8];
    let (ok, w);
    {
        let mut enc: Encoder<SliceOutputTarget> = Encoder::from(&mut buf[..]);
        let r = enc.encode_varint(v);
        ok = r.is_ok();
        core::mem::forget(r);
        w = 8 - enc.remaining();
    }
    kani::cover!(v == 2305843009213693952, "2^61 reachable");
    kani::cover!(v == -2147483649, "-2^31-1 reachable");
    assert!(ok == ((v as i128) >= lo62 && (v as i128) <= hi62), "varint62 bounds equal the range the codec encodes");
    if ok {
        let mut dec: Decoder<SliceInputSource> = Decoder::from(&buf[..w]);
        let r = dec.decode_varint::<i32>();
        assert!(r.is_ok() == ((v as i128) >= lo32 && (v as i128) <= hi32), "varint32 bounds equal the range the codec decodes as i32");
        core::mem::forget(r);
    }
    let mut ubuf = [0u8; 8];
    let (uok, uw);
    {
        let mut enc: Encoder<SliceOutputTarget> = Encoder::from(&mut ubuf[..]);
        let r = enc.encode_varuint(u);
        uok = r.is_ok();
        core::mem::forget(r);
        uw = 8 - enc.remaining();
    }
    kani::cover!(u == 4611686018427387904, "2^62 reachable");
    kani::cover!(u == 4294967296, "2^32 reachable");
    assert!(uok == ((u as i128) >= ulo62 && (u as i128) <= uhi62), "varuint62 bounds equal the range the codec encodes");
    if uok {
        let mut dec: Decoder<SliceInputSource> = Decoder::from(&ubuf[..uw]);
        let r = dec.decode_varuint::<u32>();
        assert!(r.is_ok() == ((u as i128) >= ulo32 && (u as i128) <= uhi32), "varuint32 bounds equal the range the codec decodes as u32");
        core::mem::forget(r);
    }
}
