//@@ group: slib
//@@ target: slicec/src/validators/type_aliases.rs
//
// C04, "no alias of an optional type".
use super::*;
use crate::slice_file::{Location, Span};

fn stub_format(_a: core::fmt::Arguments<'_>) -> String {
    String::new()
}
fn sp() -> Span {
    Span { start: Location { row: 1, col: 1 }, end: Location { row: 1, col: 1 }, file: String::new() }
}

//@ prop: C04
//@ family: K04-alias
//@ tier: quick
//@ functions: validators::type_aliases::validate_type_alias (public rule entry), type_aliases_cannot_be_optional
//@ inst: hand-built TypeAlias whose underlying type is an unresolved reference
//@ inputs: is_optional of the underlying type
//@ oracle: E034 (type alias of optional) exactly when the underlying type is optional; nothing else
//@ stubs: std::fmt::format -> empty string
//@ bound: unwind 6
#[kani::proof]
#[kani::unwind(6)]
#[kani::stub(std::fmt::format, stub_format)]
fn k04_alias_of_optional() {
    let optional: bool = kani::any();
    let a = TypeAlias {
        identifier: Identifier { value: String::new(), span: sp() },
        underlying: TypeRef {
            definition: TypeRefDefinition::Unpatched(Identifier { value: String::new(), span: sp() }),
            is_optional: optional,
            scope: Scope::default(),
            attributes: Vec::new(),
            span: sp(),
        },
        scope: Scope::default(),
        attributes: Vec::new(),
        comment: None,
        span: sp(),
    };
    let mut diagnostics = Diagnostics::new();
    validate_type_alias(&a, &mut diagnostics);
    kani::cover!(optional, "alias of an optional type reachable");
    kani::cover!(!optional, "alias of a plain type reachable");
    let ds = diagnostics.into_inner();
    assert!(ds.len() == optional as usize, "an alias is diagnosed exactly when its underlying type is optional");
    if optional {
        assert!(ds[0].code() == "E034", "with E034 (type alias of optional)");
    }
    core::mem::forget(ds);
    core::mem::forget(a);
}
