//@@ group: slib
//@@ target: slicec/src/validators/dictionary.rs
//
// C04, "dictionary keys of a legal type": check_dictionary_key_type on hand-built key types - every primitive kind,
// a (compact or not) struct with one field of every primitive kind, an enum with or without underlying type.
use super::*;
use crate::slice_file::{Location, Span};
use crate::utils::ptr_util::{upcast_weak_as, OwnedPtr, WeakPtr};

fn stub_format(_a: core::fmt::Arguments<'_>) -> String {
    String::new()
}
fn sp() -> Span {
    Span { start: Location { row: 1, col: 1 }, end: Location { row: 1, col: 1 }, file: String::new() }
}
fn kind(k: u8) -> Primitive {
    match k {
        0 => Primitive::Bool,
        1 => Primitive::Int8,
        2 => Primitive::UInt8,
        3 => Primitive::Int16,
        4 => Primitive::UInt16,
        5 => Primitive::Int32,
        6 => Primitive::UInt32,
        7 => Primitive::VarInt32,
        8 => Primitive::VarUInt32,
        9 => Primitive::Int64,
        10 => Primitive::UInt64,
        11 => Primitive::VarInt62,
        12 => Primitive::VarUInt62,
        13 => Primitive::Float32,
        14 => Primitive::Float64,
        _ => Primitive::String,
    }
}
/// the language rule: bool, string and the integral kinds are legal keys; the two float kinds are not
fn legal_primitive_key(k: u8) -> bool {
    k != 13 && k != 14
}
/// compare a 4-character diagnostic code without a loop (the struct harness needs a tiny unwind bound: recursion is unrolled too)
fn code_is(d: &crate::diagnostics::Diagnostic, c: &[u8; 4]) -> bool {
    let b = d.code().as_bytes();
    b.len() == 4 && b[0] == c[0] && b[1] == c[1] && b[2] == c[2] && b[3] == c[3]
}
/// runs the public rule entry point on Dictionary<key, unresolved value> and returns the diagnostics it pushed (at most one)
fn key_diagnostics(key: TypeRef) -> Vec<crate::diagnostics::Diagnostic> {
    let dict = Dictionary {
        key_type: key,
        value_type: TypeRef { definition: TypeRefDefinition::Unpatched(Identifier { value: String::new(), span: sp() }), is_optional: false, scope: Scope::default(), attributes: Vec::new(), span: sp() },
    };
    let mut diagnostics = Diagnostics::new();
    validate_dictionary(&dict, &mut diagnostics);
    core::mem::forget(dict);
    diagnostics.into_inner()
}
fn type_ref(definition: WeakPtr<dyn Type>, optional: bool) -> TypeRef {
    TypeRef { definition: TypeRefDefinition::Patched(definition), is_optional: optional, scope: Scope::default(), attributes: Vec::new(), span: sp() }
}

//@ prop: C04
//@ family: K04-key
//@ tier: quick
//@ functions: validators::dictionary::validate_dictionary (public rule entry), has_allowed_key_type, check_dictionary_key_type (primitive arm), Type::concrete_type through WeakPtr<dyn Type>, Primitive::is_integral
//@ inst: Dictionary whose key is a TypeRef<dyn Type> patched to a Primitive of symbolic kind
//@ inputs: primitive kind (all 16), optional or not
//@ oracle: legal (no diagnostic) iff not optional and the kind is bool, string or integral; optional: E003; otherwise E005
//@ stubs: std::fmt::format -> empty string
//@ bound: unwind 6
#[kani::proof]
#[kani::unwind(6)]
#[kani::stub(std::fmt::format, stub_format)]
fn k04_key_primitive() {
    let k: u8 = kani::any();
    kani::assume(k < 16);
    let optional: bool = kani::any();
    let prim = OwnedPtr::new(kind(k));
    let tr = type_ref(upcast_weak_as!(prim.downgrade(), dyn Type), optional);
    let ds = key_diagnostics(tr);
    kani::cover!(k == 13 && !optional, "float32 key reachable");
    kani::cover!(k == 15 && !optional, "string key reachable");
    kani::cover!(k == 0 && optional, "optional bool key reachable");
    let legal = !optional && legal_primitive_key(k);
    assert!(ds.len() == (!legal) as usize, "a key type is accepted exactly when it is a non-optional bool, string or integral type");
    if !legal {
        if optional {
            assert!(code_is(&ds[0], b"E003"), "an optional key: E003");
        } else {
            assert!(code_is(&ds[0], b"E005"), "an unsupported key kind: E005");
        }
    }
    core::mem::forget(ds);
    core::mem::forget(prim);
}

// (A struct-key harness - compact or not, one field of every primitive kind - was built and dropped: the recursion of
// check_dictionary_key_type through `dyn Type` exhausted 12 GB during symbolic execution at every unwind bound tried.)

//@ prop: C04
//@ family: K04-key
//@ tier: quick
//@ functions: validators::dictionary::validate_dictionary (public rule entry), check_dictionary_key_type (enum arm), formatted_kind
//@ inst: Dictionary whose key is a TypeRef<dyn Type> patched to a hand-built Enum without enumerators, with or without an underlying type
//@ inputs: underlying present or not; key optional or not
//@ oracle: legal iff not optional and the enum has an underlying type; optional: E003; no underlying type: E005
//@ stubs: std::fmt::format -> empty string
//@ bound: unwind 6
#[kani::proof]
#[kani::unwind(6)]
#[kani::stub(std::fmt::format, stub_format)]
fn k04_key_enum() {
    let backed: bool = kani::any();
    let optional: bool = kani::any();
    let prim = OwnedPtr::new(Primitive::UInt8);
    let e = OwnedPtr::new(Enum {
        identifier: Identifier { value: String::new(), span: sp() },
        enumerators: Vec::new(),
        underlying: if backed {
            Some(TypeRef { definition: TypeRefDefinition::Patched(prim.downgrade()), is_optional: false, scope: Scope::default(), attributes: Vec::new(), span: sp() })
        } else {
            None
        },
        is_compact: false,
        is_unchecked: true,
        scope: Scope::default(),
        attributes: Vec::new(),
        comment: None,
        span: sp(),
    });
    let tr = type_ref(upcast_weak_as!(e.downgrade(), dyn Type), optional);
    let ds = key_diagnostics(tr);
    kani::cover!(backed && !optional, "backed enum key reachable");
    kani::cover!(!backed && !optional, "enum key without underlying type reachable");
    let legal = backed && !optional;
    assert!(ds.len() == (!legal) as usize, "an enum key is accepted exactly when it has an underlying type and is not optional");
    if !legal {
        if optional {
            assert!(code_is(&ds[0], b"E003"), "an optional key: E003");
        } else {
            assert!(code_is(&ds[0], b"E005"), "an enum without underlying type: E005");
        }
    }
    core::mem::forget(ds);
    core::mem::forget(e);
    core::mem::forget(prim);
}
