//@@ group: slib
//@@ target: slicec/src/validators/dictionary.rs
//
// C04, "dictionary keys of a legal type": check_dictionary_key_type on hand-built key types - every primitive kind,
// a (compact or not) struct with one field of every primitive kind, an enum with or without underlying type.
use super::*;
use crate::slice_file::{Location, Span};
use crate::utils::ptr_util::{upcast_weak_as, OwnedPtr, WeakPtr};

fn stub_format(_a: core::fmt::Arguments<'_>) -> String {
    String::new()
}
fn sp() -> Span {
    Span { start: Location { row: 1, col: 1 }, end: Location { row: 1, col: 1 }, file: String::new() }
}
fn kind(k: u8) -> Primitive {
    match k {
        0 => Primitive::Bool,
        1 => Primitive::Int8,
        2 => Primitive::UInt8,
        3 => Primitive::Int16,
        4 => Primitive::UInt16,
        5 => Primitive::Int32,
        6 => Primitive::UInt32,
        7 => Primitive::VarInt32,
        8 => Primitive::VarUInt32,
        9 => Primitive::Int64,
        10 => Primitive::UInt64,
        11 => Primitive::VarInt62,
        12 => Primitive::VarUInt62,
        13 => Primitive::Float32,
        14 => Primitive::Float64,
        _ => Primitive::String,
    }
}
/// the language rule: bool, string and the integral kinds are legal keys; the two float kinds are not
fn legal_primitive_key(k: u8) -> bool {
    k != 13 && k != 14
}
fn type_ref(definition: WeakPtr<dyn Type>, optional: bool) -> TypeRef {
    TypeRef { definition: TypeRefDefinition::Patched(definition), is_optional: optional, scope: Scope::default(), attributes: Vec::new(), span: sp() }
}

//@ prop: C04
//@ family: K04-key
//@ tier: quick
//@ functions: validators::dictionary::check_dictionary_key_type (primitive arm), Type::concrete_type through WeakPtr<dyn Type>, Primitive::is_integral
//@ inst: TypeRef<dyn Type> patched to a Primitive of symbolic kind
//@ inputs: primitive kind (all 16), optional or not
//@ oracle: legal (no diagnostic) iff not optional and the kind is bool, string or integral; optional: E003; otherwise E005
//@ stubs: std::fmt::format -> empty string
//@ bound: unwind 6
#[kani::proof]
#[kani::unwind(6)]
#[kani::stub(std::fmt::format, stub_format)]
fn k04_key_primitive() {
    let k: u8 = kani::any();
    kani::assume(k < 16);
    let optional: bool = kani::any();
    let prim = OwnedPtr::new(kind(k));
    let tr = type_ref(upcast_weak_as!(prim.downgrade(), dyn Type), optional);
    let r = check_dictionary_key_type(&tr);
    kani::cover!(k == 13 && !optional, "float32 key reachable");
    kani::cover!(k == 15 && !optional, "string key reachable");
    kani::cover!(k == 0 && optional, "optional bool key reachable");
    match &r {
        None => assert!(!optional && legal_primitive_key(k), "a key type is accepted only if it is a non-optional bool, string or integral type"),
        Some(d) => {
            assert!(optional || !legal_primitive_key(k), "a legal key type is never diagnosed");
            if optional {
                assert!(d.code() == "E003", "an optional key: E003");
            } else {
                assert!(d.code() == "E005", "an unsupported key kind: E005");
            }
        }
    }
    core::mem::forget(r);
    core::mem::forget(tr);
    core::mem::forget(prim);
}

//@ prop: C04
//@ family: K04-key
//@ tier: quick
//@ functions: validators::dictionary::check_dictionary_key_type (struct arm, recursion into the fields), Struct::fields
//@ inst: TypeRef<dyn Type> patched to a hand-built Struct with exactly one field whose type is a Primitive of symbolic kind
//@ inputs: is_compact; field kind (all 16); field optional or not
//@ oracle: non-compact struct: E004; compact struct: legal iff the field is a legal key type (recursively: non-optional bool/string/integral), otherwise E006; nothing else
//@ stubs: std::fmt::format -> empty string
//@ bound: unwind 6; nesting depth 1
//@ timeout: 900
#[kani::proof]
#[kani::unwind(6)]
#[kani::stub(std::fmt::format, stub_format)]
fn k04_key_struct() {
    let k: u8 = kani::any();
    kani::assume(k < 16);
    let field_optional: bool = kani::any();
    let compact: bool = kani::any();
    let prim = OwnedPtr::new(kind(k));
    let f = OwnedPtr::new(Field {
        identifier: Identifier { value: String::new(), span: sp() },
        data_type: type_ref(upcast_weak_as!(prim.downgrade(), dyn Type), field_optional),
        tag: None,
        parent: WeakPtr::create_uninitialized(),
        scope: Scope::default(),
        attributes: Vec::new(),
        comment: None,
        span: sp(),
    });
    let mut fields = Vec::with_capacity(1);
    fields.push(f.downgrade());
    let s = OwnedPtr::new(Struct {
        identifier: Identifier { value: String::new(), span: sp() },
        fields,
        is_compact: compact,
        scope: Scope::default(),
        attributes: Vec::new(),
        comment: None,
        span: sp(),
    });
    let tr = type_ref(upcast_weak_as!(s.downgrade(), dyn Type), false);
    let r = check_dictionary_key_type(&tr);
    let field_legal = !field_optional && legal_primitive_key(k);
    kani::cover!(compact && field_optional && legal_primitive_key(k), "compact struct key with an optional int field reachable");
    kani::cover!(compact && field_legal, "legal compact struct key reachable");
    kani::cover!(!compact, "non-compact struct key reachable");
    match &r {
        None => assert!(compact && field_legal, "a struct key is accepted only if it is compact and all its fields are legal key types"),
        Some(d) => {
            assert!(!compact || !field_legal, "a legal struct key is never diagnosed");
            if !compact {
                assert!(d.code() == "E004", "a non-compact struct key: E004");
            } else {
                assert!(d.code() == "E006", "a compact struct key with a disallowed field: E006");
            }
        }
    }
    core::mem::forget(r);
    core::mem::forget(tr);
    core::mem::forget(s);
    core::mem::forget(f);
    core::mem::forget(prim);
}

//@ prop: C04
//@ family: K04-key
//@ tier: quick
//@ functions: validators::dictionary::check_dictionary_key_type (enum arm), validators::dictionary::formatted_kind
//@ inst: TypeRef<dyn Type> patched to a hand-built Enum without enumerators, with or without an underlying type
//@ inputs: underlying present or not; key optional or not
//@ oracle: legal iff not optional and the enum has an underlying type; optional: E003; no underlying type: E005
//@ stubs: std::fmt::format -> empty string
//@ bound: unwind 6
#[kani::proof]
#[kani::unwind(6)]
#[kani::stub(std::fmt::format, stub_format)]
fn k04_key_enum() {
    let backed: bool = kani::any();
    let optional: bool = kani::any();
    let prim = OwnedPtr::new(Primitive::UInt8);
    let e = OwnedPtr::new(Enum {
        identifier: Identifier { value: String::new(), span: sp() },
        enumerators: Vec::new(),
        underlying: if backed {
            Some(TypeRef { definition: TypeRefDefinition::Patched(prim.downgrade()), is_optional: false, scope: Scope::default(), attributes: Vec::new(), span: sp() })
        } else {
            None
        },
        is_compact: false,
        is_unchecked: true,
        scope: Scope::default(),
        attributes: Vec::new(),
        comment: None,
        span: sp(),
    });
    let tr = type_ref(upcast_weak_as!(e.downgrade(), dyn Type), optional);
    let r = check_dictionary_key_type(&tr);
    kani::cover!(backed && !optional, "backed enum key reachable");
    kani::cover!(!backed && !optional, "enum key without underlying type reachable");
    match &r {
        None => assert!(backed && !optional, "an enum key is accepted only if it has an underlying type and is not optional"),
        Some(d) => {
            assert!(!backed || optional, "a legal enum key is never diagnosed");
            if optional {
                assert!(d.code() == "E003", "an optional key: E003");
            } else {
                assert!(d.code() == "E005", "an enum without underlying type: E005");
            }
        }
    }
    core::mem::forget(r);
    core::mem::forget(tr);
    core::mem::forget(e);
    core::mem::forget(prim);
}
