//@@ group: slibx
//@@ target: slicec/src/validators/enums.rs
//
// C04, enum rules on a hand-built enum: "enumerator values ... within the underlying type's range (0..2^31-1 without
// one)", "checked enums non-empty", "compact enums neither unchecked nor backed", "underlying types integral and
// non-optional".  The Enum, its Enumerators and the underlying Primitive are real AST elements owned by the harness
// (OwnedPtr) and referenced through real WeakPtrs, so the validators walk them exactly as in the compiler.
use super::*;
use crate::slice_file::{Location, Span};
use crate::utils::ptr_util::{OwnedPtr, WeakPtr};

fn stub_format(_a: core::fmt::Arguments<'_>) -> String {
    String::new()
}
fn sp() -> Span {
    Span { start: Location { row: 1, col: 1 }, end: Location { row: 1, col: 1 }, file: String::new() }
}
fn kind(k: u8) -> Primitive {
    match k {
        0 => Primitive::Bool,
        1 => Primitive::Int8,
        2 => Primitive::UInt8,
        3 => Primitive::Int16,
        4 => Primitive::UInt16,
        5 => Primitive::Int32,
        6 => Primitive::UInt32,
        7 => Primitive::VarInt32,
        8 => Primitive::VarUInt32,
        9 => Primitive::Int64,
        10 => Primitive::UInt64,
        11 => Primitive::VarInt62,
        12 => Primitive::VarUInt62,
        13 => Primitive::Float32,
        14 => Primitive::Float64,
        _ => Primitive::String,
    }
}
/// the language rule: (signed?, bits) per integral kind; var*62 are 62-bit
fn rule(k: u8) -> Option<(bool, u32)> {
    match k {
        1 => Some((true, 8)),
        2 => Some((false, 8)),
        3 => Some((true, 16)),
        4 => Some((false, 16)),
        5 | 7 => Some((true, 32)),
        6 | 8 => Some((false, 32)),
        9 => Some((true, 64)),
        10 => Some((false, 64)),
        11 => Some((true, 62)),
        12 => Some((false, 62)),
        _ => None,
    }
}
fn in_rule_range(v: i128, k: Option<u8>) -> bool {
    let one: i128 = 1;
    match k {
        None => v >= 0 && v <= 2147483647, // no underlying type: 0 ..= 2^31-1
        Some(k) => match rule(k) {
            Some((true, bits)) => v >= -(one << (bits - 1)) && v <= (one << (bits - 1)) - 1,
            Some((false, bits)) => v >= 0 && v <= (one << bits) - 1,
            None => true, // non-integral underlying types are rejected by another rule; no range applies
        },
    }
}
fn enumerator(value: i128, explicit: bool) -> OwnedPtr<Enumerator> {
    OwnedPtr::new(Enumerator {
        identifier: Identifier { value: String::new(), span: sp() },
        value: if explicit { EnumeratorValue::Explicit(Integer { value, span: sp() }) } else { EnumeratorValue::Implicit(value) },
        fields: None,
        parent: WeakPtr::create_uninitialized(),
        scope: Scope::default(),
        attributes: Vec::new(),
        comment: None,
        span: sp(),
    })
}
fn count(ds: &Vec<crate::diagnostics::Diagnostic>, code: &str) -> usize {
    let mut n = 0;
    let mut i = 0;
    while i < ds.len() {
        if ds[i].code() == code {
            n += 1;
        }
        i += 1;
    }
    n
}

fn stub_random_state() -> std::hash::RandomState {
    unsafe { core::mem::transmute::<(u64, u64), std::hash::RandomState>((0, 0)) }
}
fn enum_with(prim: &OwnedPtr<Primitive>, e0: &OwnedPtr<Enumerator>, has_underlying: bool, optional: bool, compact: bool, unchecked: bool, empty: bool) -> Enum {
    let mut enumerators = Vec::with_capacity(1);
    if !empty {
        enumerators.push(e0.downgrade());
    }
    Enum {
        identifier: Identifier { value: String::new(), span: sp() },
        enumerators,
        underlying: if has_underlying {
            Some(TypeRef { definition: TypeRefDefinition::Patched(prim.downgrade()), is_optional: optional, scope: Scope::default(), attributes: Vec::new(), span: sp() })
        } else {
            None
        },
        is_compact: compact,
        is_unchecked: unchecked,
        scope: Scope::default(),
        attributes: Vec::new(),
        comment: None,
        span: sp(),
    }
}
fn a_field(tagged: bool, tag: u32) -> OwnedPtr<Field> {
    OwnedPtr::new(Field {
        identifier: Identifier { value: String::new(), span: sp() },
        data_type: TypeRef {
            definition: TypeRefDefinition::Unpatched(Identifier { value: String::new(), span: sp() }),
            is_optional: true,
            scope: Scope::default(),
            attributes: Vec::new(),
            span: sp(),
        },
        tag: if tagged { Some(Integer { value: tag, span: sp() }) } else { None },
        parent: WeakPtr::create_uninitialized(),
        scope: Scope::default(),
        attributes: Vec::new(),
        comment: None,
        span: sp(),
    })
}
/// enumerator whose field list is absent (0), present but empty (1), or holds one field (2)
fn enumerator_with_fields(layout: u8, f: &OwnedPtr<Field>) -> OwnedPtr<Enumerator> {
    let fields = if layout == 0 {
        None
    } else if layout == 1 {
        Some(Vec::with_capacity(1))
    } else {
        let mut v = Vec::with_capacity(1);
        v.push(f.downgrade());
        Some(v)
    };
    OwnedPtr::new(Enumerator {
        identifier: Identifier { value: String::new(), span: sp() },
        value: EnumeratorValue::Implicit(0),
        fields,
        parent: WeakPtr::create_uninitialized(),
        scope: Scope::default(),
        attributes: Vec::new(),
        comment: None,
        span: sp(),
    })
}

// All harnesses below go through the PUBLIC rule entry point validate_enum (all eight enum rules in sequence), so that a
// refactoring that moves logic between the private rule functions cannot raise a false alarm and a rule that is no
// longer called is noticed.  Flags and kinds are concrete per case (6.2); enumerator / tag values are symbolic.
macro_rules! bounds_case {
    ($has_underlying:expr, $prim:expr, $k:expr) => {{
        let v0: i128 = kani::any();
        let ex: bool = kani::any();
        let prim = OwnedPtr::new($prim);
        let e0 = enumerator(v0, ex);
        let enum_def = enum_with(&prim, &e0, $has_underlying, false, false, false, false);
        let mut diagnostics = Diagnostics::verif_with_capacity(2);
        validate_enum(&enum_def, &mut diagnostics);
        let kk: Option<u8> = if $has_underlying { Some($k) } else { None };
        let want = !in_rule_range(v0, kk);
        kani::cover!(want && v0 > 0, "value above the range reachable");
        kani::cover!(want && v0 < 0, "value below the range reachable");
        kani::cover!(!want, "value inside the range reachable");
        let ds = diagnostics.into_inner();
        assert!(ds.len() == want as usize, "an enumerator is diagnosed exactly when its value is outside the underlying type's range");
        if want {
            assert!(ds[0].code() == "E020", "with E020 (enumerator value out of bounds)");
        }
        core::mem::forget(ds);
        core::mem::forget(enum_def);
        core::mem::forget(e0);
        core::mem::forget(prim);
    }};
}

//@ prop: C04
//@ family: K04-enum-bounds
//@ tier: quick
//@ functions: validators::enums::validate_enum (public rule entry: all eight enum rules), backing_type_bounds, enumerator_values_are_unique, Primitive::numeric_bounds, Enum::enumerators, Enumerator::value
//@ inst: hand-built checked, non-compact Enum with exactly 1 enumerator; underlying type: none
//@ inputs: the enumerator value: any i128; implicit / explicit form
//@ oracle: E020 exactly when the value lies outside no underlying type: 0 ..= 2^31-1 (range written from the language rule, not from numeric_bounds); no other diagnostic
//@ stubs: std::fmt::format -> empty string; std::hash::RandomState::new -> fixed keys (the uniqueness rule builds a HashMap)
//@ bound: unwind 6; 1 enumerator
//@ timeout: 900
#[kani::proof]
#[kani::unwind(6)]
#[kani::stub(std::fmt::format, stub_format)]
#[kani::stub(std::hash::RandomState::new, stub_random_state)]
fn k04_enum_bounds_none() {
    bounds_case!(false, Primitive::UInt8, 0u8)
}

//@ prop: C04
//@ family: K04-enum-bounds
//@ tier: quick
//@ functions: validators::enums::validate_enum (public rule entry: all eight enum rules), backing_type_bounds, enumerator_values_are_unique, Primitive::numeric_bounds, Enum::enumerators, Enumerator::value
//@ inst: hand-built checked, non-compact Enum with exactly 1 enumerator; underlying type: int8
//@ inputs: the enumerator value: any i128; implicit / explicit form
//@ oracle: E020 exactly when the value lies outside -2^7 ..= 2^7-1 (range written from the language rule, not from numeric_bounds); no other diagnostic
//@ stubs: std::fmt::format -> empty string; std::hash::RandomState::new -> fixed keys (the uniqueness rule builds a HashMap)
//@ bound: unwind 6; 1 enumerator
//@ timeout: 900
#[kani::proof]
#[kani::unwind(6)]
#[kani::stub(std::fmt::format, stub_format)]
#[kani::stub(std::hash::RandomState::new, stub_random_state)]
fn k04_enum_bounds_int8() {
    bounds_case!(true, Primitive::Int8, 1u8)
}

//@ prop: C04
//@ family: K04-enum-bounds
//@ tier: thorough
//@ functions: validators::enums::validate_enum (public rule entry: all eight enum rules), backing_type_bounds, enumerator_values_are_unique, Primitive::numeric_bounds, Enum::enumerators, Enumerator::value
//@ inst: hand-built checked, non-compact Enum with exactly 1 enumerator; underlying type: uint8
//@ inputs: the enumerator value: any i128; implicit / explicit form
//@ oracle: E020 exactly when the value lies outside 0 ..= 2^8-1 (range written from the language rule, not from numeric_bounds); no other diagnostic
//@ stubs: std::fmt::format -> empty string; std::hash::RandomState::new -> fixed keys (the uniqueness rule builds a HashMap)
//@ bound: unwind 6; 1 enumerator
//@ timeout: 900
#[kani::proof]
#[kani::unwind(6)]
#[kani::stub(std::fmt::format, stub_format)]
#[kani::stub(std::hash::RandomState::new, stub_random_state)]
fn k04_enum_bounds_uint8() {
    bounds_case!(true, Primitive::UInt8, 2u8)
}

//@ prop: C04
//@ family: K04-enum-bounds
//@ tier: thorough
//@ functions: validators::enums::validate_enum (public rule entry: all eight enum rules), backing_type_bounds, enumerator_values_are_unique, Primitive::numeric_bounds, Enum::enumerators, Enumerator::value
//@ inst: hand-built checked, non-compact Enum with exactly 1 enumerator; underlying type: int16
//@ inputs: the enumerator value: any i128; implicit / explicit form
//@ oracle: E020 exactly when the value lies outside -2^15 ..= 2^15-1 (range written from the language rule, not from numeric_bounds); no other diagnostic
//@ stubs: std::fmt::format -> empty string; std::hash::RandomState::new -> fixed keys (the uniqueness rule builds a HashMap)
//@ bound: unwind 6; 1 enumerator
//@ timeout: 900
#[kani::proof]
#[kani::unwind(6)]
#[kani::stub(std::fmt::format, stub_format)]
#[kani::stub(std::hash::RandomState::new, stub_random_state)]
fn k04_enum_bounds_int16() {
    bounds_case!(true, Primitive::Int16, 3u8)
}

//@ prop: C04
//@ family: K04-enum-bounds
//@ tier: thorough
//@ functions: validators::enums::validate_enum (public rule entry: all eight enum rules), backing_type_bounds, enumerator_values_are_unique, Primitive::numeric_bounds, Enum::enumerators, Enumerator::value
//@ inst: hand-built checked, non-compact Enum with exactly 1 enumerator; underlying type: uint16
//@ inputs: the enumerator value: any i128; implicit / explicit form
//@ oracle: E020 exactly when the value lies outside 0 ..= 2^16-1 (range written from the language rule, not from numeric_bounds); no other diagnostic
//@ stubs: std::fmt::format -> empty string; std::hash::RandomState::new -> fixed keys (the uniqueness rule builds a HashMap)
//@ bound: unwind 6; 1 enumerator
//@ timeout: 900
#[kani::proof]
#[kani::unwind(6)]
#[kani::stub(std::fmt::format, stub_format)]
#[kani::stub(std::hash::RandomState::new, stub_random_state)]
fn k04_enum_bounds_uint16() {
    bounds_case!(true, Primitive::UInt16, 4u8)
}

//@ prop: C04
//@ family: K04-enum-bounds
//@ tier: thorough
//@ functions: validators::enums::validate_enum (public rule entry: all eight enum rules), backing_type_bounds, enumerator_values_are_unique, Primitive::numeric_bounds, Enum::enumerators, Enumerator::value
//@ inst: hand-built checked, non-compact Enum with exactly 1 enumerator; underlying type: int32
//@ inputs: the enumerator value: any i128; implicit / explicit form
//@ oracle: E020 exactly when the value lies outside -2^31 ..= 2^31-1 (range written from the language rule, not from numeric_bounds); no other diagnostic
//@ stubs: std::fmt::format -> empty string; std::hash::RandomState::new -> fixed keys (the uniqueness rule builds a HashMap)
//@ bound: unwind 6; 1 enumerator
//@ timeout: 900
#[kani::proof]
#[kani::unwind(6)]
#[kani::stub(std::fmt::format, stub_format)]
#[kani::stub(std::hash::RandomState::new, stub_random_state)]
fn k04_enum_bounds_int32() {
    bounds_case!(true, Primitive::Int32, 5u8)
}

//@ prop: C04
//@ family: K04-enum-bounds
//@ tier: thorough
//@ functions: validators::enums::validate_enum (public rule entry: all eight enum rules), backing_type_bounds, enumerator_values_are_unique, Primitive::numeric_bounds, Enum::enumerators, Enumerator::value
//@ inst: hand-built checked, non-compact Enum with exactly 1 enumerator; underlying type: uint32
//@ inputs: the enumerator value: any i128; implicit / explicit form
//@ oracle: E020 exactly when the value lies outside 0 ..= 2^32-1 (range written from the language rule, not from numeric_bounds); no other diagnostic
//@ stubs: std::fmt::format -> empty string; std::hash::RandomState::new -> fixed keys (the uniqueness rule builds a HashMap)
//@ bound: unwind 6; 1 enumerator
//@ timeout: 900
#[kani::proof]
#[kani::unwind(6)]
#[kani::stub(std::fmt::format, stub_format)]
#[kani::stub(std::hash::RandomState::new, stub_random_state)]
fn k04_enum_bounds_uint32() {
    bounds_case!(true, Primitive::UInt32, 6u8)
}

//@ prop: C04
//@ family: K04-enum-bounds
//@ tier: quick
//@ functions: validators::enums::validate_enum (public rule entry: all eight enum rules), backing_type_bounds, enumerator_values_are_unique, Primitive::numeric_bounds, Enum::enumerators, Enumerator::value
//@ inst: hand-built checked, non-compact Enum with exactly 1 enumerator; underlying type: varint32
//@ inputs: the enumerator value: any i128; implicit / explicit form
//@ oracle: E020 exactly when the value lies outside -2^31 ..= 2^31-1 (range written from the language rule, not from numeric_bounds); no other diagnostic
//@ stubs: std::fmt::format -> empty string; std::hash::RandomState::new -> fixed keys (the uniqueness rule builds a HashMap)
//@ bound: unwind 6; 1 enumerator
//@ timeout: 900
#[kani::proof]
#[kani::unwind(6)]
#[kani::stub(std::fmt::format, stub_format)]
#[kani::stub(std::hash::RandomState::new, stub_random_state)]
fn k04_enum_bounds_varint32() {
    bounds_case!(true, Primitive::VarInt32, 7u8)
}

//@ prop: C04
//@ family: K04-enum-bounds
//@ tier: thorough
//@ functions: validators::enums::validate_enum (public rule entry: all eight enum rules), backing_type_bounds, enumerator_values_are_unique, Primitive::numeric_bounds, Enum::enumerators, Enumerator::value
//@ inst: hand-built checked, non-compact Enum with exactly 1 enumerator; underlying type: varuint32
//@ inputs: the enumerator value: any i128; implicit / explicit form
//@ oracle: E020 exactly when the value lies outside 0 ..= 2^32-1 (range written from the language rule, not from numeric_bounds); no other diagnostic
//@ stubs: std::fmt::format -> empty string; std::hash::RandomState::new -> fixed keys (the uniqueness rule builds a HashMap)
//@ bound: unwind 6; 1 enumerator
//@ timeout: 900
#[kani::proof]
#[kani::unwind(6)]
#[kani::stub(std::fmt::format, stub_format)]
#[kani::stub(std::hash::RandomState::new, stub_random_state)]
fn k04_enum_bounds_varuint32() {
    bounds_case!(true, Primitive::VarUInt32, 8u8)
}

//@ prop: C04
//@ family: K04-enum-bounds
//@ tier: thorough
//@ functions: validators::enums::validate_enum (public rule entry: all eight enum rules), backing_type_bounds, enumerator_values_are_unique, Primitive::numeric_bounds, Enum::enumerators, Enumerator::value
//@ inst: hand-built checked, non-compact Enum with exactly 1 enumerator; underlying type: int64
//@ inputs: the enumerator value: any i128; implicit / explicit form
//@ oracle: E020 exactly when the value lies outside -2^63 ..= 2^63-1 (range written from the language rule, not from numeric_bounds); no other diagnostic
//@ stubs: std::fmt::format -> empty string; std::hash::RandomState::new -> fixed keys (the uniqueness rule builds a HashMap)
//@ bound: unwind 6; 1 enumerator
//@ timeout: 900
#[kani::proof]
#[kani::unwind(6)]
#[kani::stub(std::fmt::format, stub_format)]
#[kani::stub(std::hash::RandomState::new, stub_random_state)]
fn k04_enum_bounds_int64() {
    bounds_case!(true, Primitive::Int64, 9u8)
}

//@ prop: C04
//@ family: K04-enum-bounds
//@ tier: quick
//@ functions: validators::enums::validate_enum (public rule entry: all eight enum rules), backing_type_bounds, enumerator_values_are_unique, Primitive::numeric_bounds, Enum::enumerators, Enumerator::value
//@ inst: hand-built checked, non-compact Enum with exactly 1 enumerator; underlying type: uint64
//@ inputs: the enumerator value: any i128; implicit / explicit form
//@ oracle: E020 exactly when the value lies outside 0 ..= 2^64-1 (range written from the language rule, not from numeric_bounds); no other diagnostic
//@ stubs: std::fmt::format -> empty string; std::hash::RandomState::new -> fixed keys (the uniqueness rule builds a HashMap)
//@ bound: unwind 6; 1 enumerator
//@ timeout: 900
#[kani::proof]
#[kani::unwind(6)]
#[kani::stub(std::fmt::format, stub_format)]
#[kani::stub(std::hash::RandomState::new, stub_random_state)]
fn k04_enum_bounds_uint64() {
    bounds_case!(true, Primitive::UInt64, 10u8)
}

//@ prop: C04
//@ family: K04-enum-bounds
//@ tier: quick
//@ functions: validators::enums::validate_enum (public rule entry: all eight enum rules), backing_type_bounds, enumerator_values_are_unique, Primitive::numeric_bounds, Enum::enumerators, Enumerator::value
//@ inst: hand-built checked, non-compact Enum with exactly 1 enumerator; underlying type: varint62
//@ inputs: the enumerator value: any i128; implicit / explicit form
//@ oracle: E020 exactly when the value lies outside -2^61 ..= 2^61-1 (range written from the language rule, not from numeric_bounds); no other diagnostic
//@ stubs: std::fmt::format -> empty string; std::hash::RandomState::new -> fixed keys (the uniqueness rule builds a HashMap)
//@ bound: unwind 6; 1 enumerator
//@ timeout: 900
#[kani::proof]
#[kani::unwind(6)]
#[kani::stub(std::fmt::format, stub_format)]
#[kani::stub(std::hash::RandomState::new, stub_random_state)]
fn k04_enum_bounds_varint62() {
    bounds_case!(true, Primitive::VarInt62, 11u8)
}

//@ prop: C04
//@ family: K04-enum-bounds
//@ tier: quick
//@ functions: validators::enums::validate_enum (public rule entry: all eight enum rules), backing_type_bounds, enumerator_values_are_unique, Primitive::numeric_bounds, Enum::enumerators, Enumerator::value
//@ inst: hand-built checked, non-compact Enum with exactly 1 enumerator; underlying type: varuint62
//@ inputs: the enumerator value: any i128; implicit / explicit form
//@ oracle: E020 exactly when the value lies outside 0 ..= 2^62-1 (range written from the language rule, not from numeric_bounds); no other diagnostic
//@ stubs: std::fmt::format -> empty string; std::hash::RandomState::new -> fixed keys (the uniqueness rule builds a HashMap)
//@ bound: unwind 6; 1 enumerator
//@ timeout: 900
#[kani::proof]
#[kani::unwind(6)]
#[kani::stub(std::fmt::format, stub_format)]
#[kani::stub(std::hash::RandomState::new, stub_random_state)]
fn k04_enum_bounds_varuint62() {
    bounds_case!(true, Primitive::VarUInt62, 12u8)
}

// Flag rules on EMPTY enums (an enumerator makes the uniqueness rule insert into a HashMap: ~400 k steps and 5-12 GB per
// case; "non-empty checked enums are accepted" is what the K04-enum-bounds harnesses show).
macro_rules! flags_case {
    ($prim:expr, $has_underlying:expr, $integral:expr, $optional:expr, $compact:expr, $unchecked:expr) => {{
        let prim = OwnedPtr::new($prim);
        let e0 = enumerator(0, false);
        let enum_def = enum_with(&prim, &e0, $has_underlying, $optional, $compact, $unchecked, true);
        let mut diagnostics = Diagnostics::verif_with_capacity(6);
        validate_enum(&enum_def, &mut diagnostics);
        let ds = diagnostics.into_inner();
        let e009 = ($has_underlying && !$integral) as usize;
        let e007 = ($has_underlying && $optional) as usize;
        let e008 = (!$unchecked) as usize;
        let e036 = ($compact && $has_underlying) as usize + ($compact && $unchecked) as usize;
        assert!(count(&ds, "E009") == e009, "a non-integral underlying type is diagnosed, an integral one is not");
        assert!(count(&ds, "E007") == e007, "an optional underlying type is diagnosed, a plain one is not");
        assert!(count(&ds, "E008") == e008, "an empty enum is diagnosed exactly when it is checked");
        assert!(count(&ds, "E036") == e036, "a compact enum is diagnosed once if backed and once if unchecked");
        assert!(ds.len() == e009 + e007 + e008 + e036, "no other diagnostic is produced");
        core::mem::forget(ds);
        core::mem::forget(enum_def);
        core::mem::forget(e0);
        core::mem::forget(prim);
    }};
}

//@ prop: C04
//@ family: K04-enum-flags
//@ tier: quick
//@ functions: validators::enums::validate_enum (public rule entry), allowed_underlying_types, underlying_type_cannot_be_optional, nonempty_if_checked, check_compact_modifier
//@ inst: hand-built Enum without enumerators; no underlying type
//@ inputs: all 4 combinations of (underlying optional,) compact, unchecked as concrete cases behind a symbolic selector (exhaustive for the flags)
//@ oracle: the multiset of codes equals the rules: E009 iff underlying not integral; E007 iff underlying optional; E008 iff checked (the enum is empty); E036 once if compact and backed plus once if compact and unchecked; nothing else
//@ stubs: std::fmt::format -> empty string; std::hash::RandomState::new -> fixed keys
//@ bound: unwind 6; flags enumerated, so every diagnostic lands at a concrete position
//@ timeout: 1500
#[kani::proof]
#[kani::unwind(6)]
#[kani::stub(std::fmt::format, stub_format)]
#[kani::stub(std::hash::RandomState::new, stub_random_state)]
fn k04_enum_flags_none() {
    let case: u8 = kani::any();
    kani::assume(case < 4);
    kani::cover!(case == 0, "first combination reachable");
    kani::cover!(case == 3, "last combination reachable");
    if case == 0 {
        flags_case!(Primitive::UInt8, false, true, false, false, false)
    } else if case == 1 {
        flags_case!(Primitive::UInt8, false, true, false, false, true)
    } else if case == 2 {
        flags_case!(Primitive::UInt8, false, true, false, true, false)
    } else {
        flags_case!(Primitive::UInt8, false, true, false, true, true)
    }
}

//@ prop: C04
//@ family: K04-enum-flags
//@ tier: quick
//@ functions: validators::enums::validate_enum (public rule entry), allowed_underlying_types, underlying_type_cannot_be_optional, nonempty_if_checked, check_compact_modifier
//@ inst: hand-built Enum without enumerators; underlying uint8 (integral)
//@ inputs: all 8 combinations of (underlying optional,) compact, unchecked as concrete cases behind a symbolic selector (exhaustive for the flags)
//@ oracle: the multiset of codes equals the rules: E009 iff underlying not integral; E007 iff underlying optional; E008 iff checked (the enum is empty); E036 once if compact and backed plus once if compact and unchecked; nothing else
//@ stubs: std::fmt::format -> empty string; std::hash::RandomState::new -> fixed keys
//@ bound: unwind 6; flags enumerated, so every diagnostic lands at a concrete position
//@ timeout: 1500
#[kani::proof]
#[kani::unwind(6)]
#[kani::stub(std::fmt::format, stub_format)]
#[kani::stub(std::hash::RandomState::new, stub_random_state)]
fn k04_enum_flags_uint8() {
    let case: u8 = kani::any();
    kani::assume(case < 8);
    kani::cover!(case == 0, "first combination reachable");
    kani::cover!(case == 7, "last combination reachable");
    if case == 0 {
        flags_case!(Primitive::UInt8, true, true, false, false, false)
    } else if case == 1 {
        flags_case!(Primitive::UInt8, true, true, false, false, true)
    } else if case == 2 {
        flags_case!(Primitive::UInt8, true, true, false, true, false)
    } else if case == 3 {
        flags_case!(Primitive::UInt8, true, true, false, true, true)
    } else if case == 4 {
        flags_case!(Primitive::UInt8, true, true, true, false, false)
    } else if case == 5 {
        flags_case!(Primitive::UInt8, true, true, true, false, true)
    } else if case == 6 {
        flags_case!(Primitive::UInt8, true, true, true, true, false)
    } else {
        flags_case!(Primitive::UInt8, true, true, true, true, true)
    }
}

//@ prop: C04
//@ family: K04-enum-flags
//@ tier: quick
//@ functions: validators::enums::validate_enum (public rule entry), allowed_underlying_types, underlying_type_cannot_be_optional, nonempty_if_checked, check_compact_modifier
//@ inst: hand-built Enum without enumerators; underlying float32 (not integral)
//@ inputs: all 8 combinations of (underlying optional,) compact, unchecked as concrete cases behind a symbolic selector (exhaustive for the flags)
//@ oracle: the multiset of codes equals the rules: E009 iff underlying not integral; E007 iff underlying optional; E008 iff checked (the enum is empty); E036 once if compact and backed plus once if compact and unchecked; nothing else
//@ stubs: std::fmt::format -> empty string; std::hash::RandomState::new -> fixed keys
//@ bound: unwind 6; flags enumerated, so every diagnostic lands at a concrete position
//@ timeout: 1500
#[kani::proof]
#[kani::unwind(6)]
#[kani::stub(std::fmt::format, stub_format)]
#[kani::stub(std::hash::RandomState::new, stub_random_state)]
fn k04_enum_flags_float32() {
    let case: u8 = kani::any();
    kani::assume(case < 8);
    kani::cover!(case == 0, "first combination reachable");
    kani::cover!(case == 7, "last combination reachable");
    if case == 0 {
        flags_case!(Primitive::Float32, true, false, false, false, false)
    } else if case == 1 {
        flags_case!(Primitive::Float32, true, false, false, false, true)
    } else if case == 2 {
        flags_case!(Primitive::Float32, true, false, false, true, false)
    } else if case == 3 {
        flags_case!(Primitive::Float32, true, false, false, true, true)
    } else if case == 4 {
        flags_case!(Primitive::Float32, true, false, true, false, false)
    } else if case == 5 {
        flags_case!(Primitive::Float32, true, false, true, false, true)
    } else if case == 6 {
        flags_case!(Primitive::Float32, true, false, true, true, false)
    } else {
        flags_case!(Primitive::Float32, true, false, true, true, true)
    }
}

//@ prop: C04
//@ family: K04-enum-flags
//@ tier: thorough
//@ functions: validators::enums::validate_enum (public rule entry), allowed_underlying_types, underlying_type_cannot_be_optional, nonempty_if_checked, check_compact_modifier
//@ inst: hand-built Enum without enumerators; underlying string (not integral)
//@ inputs: all 8 combinations of (underlying optional,) compact, unchecked as concrete cases behind a symbolic selector (exhaustive for the flags)
//@ oracle: the multiset of codes equals the rules: E009 iff underlying not integral; E007 iff underlying optional; E008 iff checked (the enum is empty); E036 once if compact and backed plus once if compact and unchecked; nothing else
//@ stubs: std::fmt::format -> empty string; std::hash::RandomState::new -> fixed keys
//@ bound: unwind 6; flags enumerated, so every diagnostic lands at a concrete position
//@ timeout: 1500
#[kani::proof]
#[kani::unwind(6)]
#[kani::stub(std::fmt::format, stub_format)]
#[kani::stub(std::hash::RandomState::new, stub_random_state)]
fn k04_enum_flags_string() {
    let case: u8 = kani::any();
    kani::assume(case < 8);
    kani::cover!(case == 0, "first combination reachable");
    kani::cover!(case == 7, "last combination reachable");
    if case == 0 {
        flags_case!(Primitive::String, true, false, false, false, false)
    } else if case == 1 {
        flags_case!(Primitive::String, true, false, false, false, true)
    } else if case == 2 {
        flags_case!(Primitive::String, true, false, false, true, false)
    } else if case == 3 {
        flags_case!(Primitive::String, true, false, false, true, true)
    } else if case == 4 {
        flags_case!(Primitive::String, true, false, true, false, false)
    } else if case == 5 {
        flags_case!(Primitive::String, true, false, true, false, true)
    } else if case == 6 {
        flags_case!(Primitive::String, true, false, true, true, false)
    } else {
        flags_case!(Primitive::String, true, false, true, true, true)
    }
}

// Field rules need an enumerator, hence the HashMap insertion of the uniqueness rule: one concrete case per harness.
macro_rules! fields_case {
    ($backed:expr, $compact:expr, $layout:expr, $tagged:expr) => {{
        let tag: u32 = kani::any();
        let prim = OwnedPtr::new(Primitive::UInt8);
        let f = a_field($tagged, tag);
        let e0 = enumerator_with_fields($layout, &f);
        let enum_def = enum_with(&prim, &e0, $backed, false, $compact, false, false);
        let mut diagnostics = Diagnostics::verif_with_capacity(3);
        validate_enum(&enum_def, &mut diagnostics);
        let ds = diagnostics.into_inner();
        let e035 = ($backed && $layout != 0) as usize;
        let e015 = ($compact && $layout == 2 && $tagged) as usize;
        let e036 = ($compact && $backed) as usize;
        kani::cover!(tag == 0, "tag 0 reachable");
        assert!(count(&ds, "E035") == e035, "a field list under an underlying type (even an empty one) is diagnosed; none otherwise");
        assert!(count(&ds, "E015") == e015, "a tagged field in a compact enum is diagnosed; none otherwise");
        assert!(ds.len() == e035 + e015 + e036, "no other diagnostic is produced");
        core::mem::forget(ds);
        core::mem::forget(enum_def);
        core::mem::forget(e0);
        core::mem::forget(f);
        core::mem::forget(prim);
    }};
}

//@ prop: C04
//@ family: K04-enum-fields
//@ tier: quick
//@ functions: validators::enums::validate_enum (public rule entry), cannot_contain_fields, compact_enums_cannot_contain_tags, enumerator_values_are_unique, Enumerator::fields
//@ inst: hand-built backed uint8 enum whose enumerator has an EMPTY field list
//@ inputs: the tag value (any u32)
//@ oracle: exactly: E035 (even an empty field list is a field list)
//@ stubs: std::fmt::format -> empty string; std::hash::RandomState::new -> fixed keys
//@ bound: unwind 6; one concrete case
//@ timeout: 1500
#[kani::proof]
#[kani::unwind(6)]
#[kani::stub(std::fmt::format, stub_format)]
#[kani::stub(std::hash::RandomState::new, stub_random_state)]
fn k04_enum_fields_backed_empty_list() {
    fields_case!(true, false, 1, false)
}

//@ prop: C04
//@ family: K04-enum-fields
//@ tier: thorough
//@ functions: validators::enums::validate_enum (public rule entry), cannot_contain_fields, compact_enums_cannot_contain_tags, enumerator_values_are_unique, Enumerator::fields
//@ inst: hand-built backed uint8 enum with a plain enumerator
//@ inputs: the tag value (any u32)
//@ oracle: exactly: no diagnostic
//@ stubs: std::fmt::format -> empty string; std::hash::RandomState::new -> fixed keys
//@ bound: unwind 6; one concrete case
//@ timeout: 1500
#[kani::proof]
#[kani::unwind(6)]
#[kani::stub(std::fmt::format, stub_format)]
#[kani::stub(std::hash::RandomState::new, stub_random_state)]
fn k04_enum_fields_backed_no_list() {
    fields_case!(true, false, 0, false)
}

//@ prop: C04
//@ family: K04-enum-fields
//@ tier: thorough
//@ functions: validators::enums::validate_enum (public rule entry), cannot_contain_fields, compact_enums_cannot_contain_tags, enumerator_values_are_unique, Enumerator::fields
//@ inst: hand-built backed uint8 enum whose enumerator has one field
//@ inputs: the tag value (any u32)
//@ oracle: exactly: E035
//@ stubs: std::fmt::format -> empty string; std::hash::RandomState::new -> fixed keys
//@ bound: unwind 6; one concrete case
//@ timeout: 1500
#[kani::proof]
#[kani::unwind(6)]
#[kani::stub(std::fmt::format, stub_format)]
#[kani::stub(std::hash::RandomState::new, stub_random_state)]
fn k04_enum_fields_backed_one_field() {
    fields_case!(true, false, 2, false)
}

// ("compact enums untagged" - a compact enum whose enumerator has a tagged field - is NOT covered: through the public
// validate_enum it exceeds 24 GB at every unwind bound that passes the unwinding assertions, and a harness calling the
// private compact_enums_cannot_contain_tags directly was removed because a behaviour-preserving refactoring that hoists
// the is_compact guard into validate_enum (seeded/REF-r5) turns the helper's precondition into a debug_assert and would
// have made that harness raise a false alarm.  The same rule for structs is covered by k04_struct_one_field.)

//@ prop: C04
//@ family: K04-enum-fields
//@ tier: thorough
//@ functions: validators::enums::validate_enum (public rule entry), cannot_contain_fields, compact_enums_cannot_contain_tags, enumerator_values_are_unique, Enumerator::fields
//@ inst: hand-built ordinary unbacked enum whose enumerator has one tagged field
//@ inputs: the tag value (any u32)
//@ oracle: exactly: no diagnostic
//@ stubs: std::fmt::format -> empty string; std::hash::RandomState::new -> fixed keys
//@ bound: unwind 6; one concrete case
//@ timeout: 1500
#[kani::proof]
#[kani::unwind(6)]
#[kani::stub(std::fmt::format, stub_format)]
#[kani::stub(std::hash::RandomState::new, stub_random_state)]
fn k04_enum_fields_plain_tagged() {
    fields_case!(false, false, 2, true)
}


// ("enumerator values unique" with a symbolic value - two enumerators, the second value any i128, through the private
// enumerator_values_are_unique - did not leave symbolic execution in 20 min: a symbolic key hashed into hashbrown.)
