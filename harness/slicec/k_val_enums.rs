//@@ group: slib
//@@ target: slicec/src/validators/enums.rs
//
// C04, enum rules on a hand-built enum: "enumerator values ... within the underlying type's range (0..2^31-1 without
// one)", "checked enums non-empty", "compact enums neither unchecked nor backed", "underlying types integral and
// non-optional".  The Enum, its Enumerators and the underlying Primitive are real AST elements owned by the harness
// (OwnedPtr) and referenced through real WeakPtrs, so the validators walk them exactly as in the compiler.
use super::*;
use crate::slice_file::{Location, Span};
use crate::utils::ptr_util::{OwnedPtr, WeakPtr};

fn stub_format(_a: core::fmt::Arguments<'_>) -> String {
    String::new()
}
fn sp() -> Span {
    Span { start: Location { row: 1, col: 1 }, end: Location { row: 1, col: 1 }, file: String::new() }
}
fn kind(k: u8) -> Primitive {
    match k {
        0 => Primitive::Bool,
        1 => Primitive::Int8,
        2 => Primitive::UInt8,
        3 => Primitive::Int16,
        4 => Primitive::UInt16,
        5 => Primitive::Int32,
        6 => Primitive::UInt32,
        7 => Primitive::VarInt32,
        8 => Primitive::VarUInt32,
        9 => Primitive::Int64,
        10 => Primitive::UInt64,
        11 => Primitive::VarInt62,
        12 => Primitive::VarUInt62,
        13 => Primitive::Float32,
        14 => Primitive::Float64,
        _ => Primitive::String,
    }
}
/// the language rule: (signed?, bits) per integral kind; var*62 are 62-bit
fn rule(k: u8) -> Option<(bool, u32)> {
    match k {
        1 => Some((true, 8)),
        2 => Some((false, 8)),
        3 => Some((true, 16)),
        4 => Some((false, 16)),
        5 | 7 => Some((true, 32)),
        6 | 8 => Some((false, 32)),
        9 => Some((true, 64)),
        10 => Some((false, 64)),
        11 => Some((true, 62)),
        12 => Some((false, 62)),
        _ => None,
    }
}
fn in_rule_range(v: i128, k: Option<u8>) -> bool {
    let one: i128 = 1;
    match k {
        None => v >= 0 && v <= 2147483647, // no underlying type: 0 ..= 2^31-1
        Some(k) => match rule(k) {
            Some((true, bits)) => v >= -(one << (bits - 1)) && v <= (one << (bits - 1)) - 1,
            Some((false, bits)) => v >= 0 && v <= (one << bits) - 1,
            None => true, // non-integral underlying types are rejected by another rule; no range applies
        },
    }
}
fn enumerator(value: i128, explicit: bool) -> OwnedPtr<Enumerator> {
    OwnedPtr::new(Enumerator {
        identifier: Identifier { value: String::new(), span: sp() },
        value: if explicit { EnumeratorValue::Explicit(Integer { value, span: sp() }) } else { EnumeratorValue::Implicit(value) },
        fields: None,
        parent: WeakPtr::create_uninitialized(),
        scope: Scope::default(),
        attributes: Vec::new(),
        comment: None,
        span: sp(),
    })
}
fn count(ds: &Vec<crate::diagnostics::Diagnostic>, code: &str) -> usize {
    let mut n = 0;
    let mut i = 0;
    while i < ds.len() {
        if ds[i].code() == code {
            n += 1;
        }
        i += 1;
    }
    n
}

//@ prop: C04
//@ family: K04-enum-bounds
//@ tier: quick
//@ functions: validators::enums::backing_type_bounds (check_bounds), Enum::enumerators, Enumerator::value, TypeRef<Primitive>::deref, Primitive::numeric_bounds
//@ inst: hand-built Enum with exactly 1 enumerator; underlying type None or a Patched TypeRef<Primitive> of symbolic kind (all 16)
//@ inputs: underlying: none | any of the 16 primitive kinds; the enumerator value: any i128; implicit/explicit form symbolic
//@ oracle: E020 (value out of bounds) exactly when the value lies outside the range the language rule gives for the underlying type (0..=2^31-1 without one; -2^(n-1)..=2^(n-1)-1 / 0..=2^n-1, n = 62 for the var*62 kinds); nothing for non-integral kinds; nothing else
//@ stubs: std::fmt::format -> empty string
//@ bound: unwind 6 (4-byte code compare); 1 enumerator (the number of diagnostics pushed must stay 0..1: a data-dependent position in the diagnostics vector costs > 10 GB)
#[kani::proof]
#[kani::unwind(6)]
#[kani::stub(std::fmt::format, stub_format)]
fn k04_enum_value_bounds() {
    let has_underlying: bool = kani::any();
    let k: u8 = kani::any();
    kani::assume(k < 16);
    let v0: i128 = kani::any();
    let ex: bool = kani::any();
    let prim = OwnedPtr::new(kind(k));
    let e0 = enumerator(v0, ex);
    let mut enumerators = Vec::with_capacity(1);
    enumerators.push(e0.downgrade());
    let enum_def = Enum {
        identifier: Identifier { value: String::new(), span: sp() },
        enumerators,
        underlying: if has_underlying {
            Some(TypeRef { definition: TypeRefDefinition::Patched(prim.downgrade()), is_optional: false, scope: Scope::default(), attributes: Vec::new(), span: sp() })
        } else {
            None
        },
        is_compact: false,
        is_unchecked: false,
        scope: Scope::default(),
        attributes: Vec::new(),
        comment: None,
        span: sp(),
    };
    let mut diagnostics = Diagnostics::verif_with_capacity(2);
    backing_type_bounds(&enum_def, &mut diagnostics);
    let kk = if has_underlying { Some(k) } else { None };
    let want = !in_rule_range(v0, kk);
    kani::cover!(!has_underlying && v0 == 2147483648, "no underlying type: 2^31 reachable");
    kani::cover!(!has_underlying && v0 == 2147483647, "no underlying type: 2^31-1 reachable");
    kani::cover!(has_underlying && k == 11 && v0 == -2305843009213693953, "varint62: -2^61-1 reachable");
    kani::cover!(has_underlying && k == 11 && v0 == -2305843009213693952, "varint62: -2^61 reachable");
    kani::cover!(has_underlying && k == 10 && v0 == 18446744073709551615, "uint64: 2^64-1 reachable");
    kani::cover!(has_underlying && k == 14, "non-integral underlying kind reachable");
    assert!(diagnostics.has_errors() == want, "an enumerator is diagnosed exactly when its value is outside the underlying type's range");
    let ds = diagnostics.into_inner();
    assert!(ds.len() == want as usize, "exactly one diagnostic per offending enumerator, none otherwise");
    if want {
        assert!(ds[0].code() == "E020", "the diagnostic is E020 (enumerator value out of bounds)");
    }
    core::mem::forget(ds);
    core::mem::forget(enum_def);
    core::mem::forget(e0);
    core::mem::forget(prim);
}

fn enum_with(prim: &OwnedPtr<Primitive>, e0: &OwnedPtr<Enumerator>, has_underlying: bool, optional: bool, compact: bool, unchecked: bool, empty: bool) -> Enum {
    let mut enumerators = Vec::with_capacity(1);
    if !empty {
        enumerators.push(e0.downgrade());
    }
    Enum {
        identifier: Identifier { value: String::new(), span: sp() },
        enumerators,
        underlying: if has_underlying {
            Some(TypeRef { definition: TypeRefDefinition::Patched(prim.downgrade()), is_optional: optional, scope: Scope::default(), attributes: Vec::new(), span: sp() })
        } else {
            None
        },
        is_compact: compact,
        is_unchecked: unchecked,
        scope: Scope::default(),
        attributes: Vec::new(),
        comment: None,
        span: sp(),
    }
}

//@ prop: C04
//@ family: K04-enum-flags
//@ tier: quick
//@ functions: validators::enums::{allowed_underlying_types, underlying_type_cannot_be_optional, nonempty_if_checked} (each run on a fresh pre-sized Diagnostics, selected symbolically)
//@ inst: hand-built Enum with 0 or 1 enumerators; underlying none | Patched TypeRef<Primitive> of symbolic kind (16)
//@ inputs: which rule; is_compact, is_unchecked, underlying present / kind / optional, empty or not
//@ oracle: E009 iff underlying present and not integral; E007 iff underlying present and optional; E008 iff checked and empty; exactly one diagnostic then, none otherwise
//@ stubs: std::fmt::format -> empty string
//@ bound: unwind 6; each rule pushes at most one diagnostic (a data-dependent position in the diagnostics vector costs > 10 GB)
#[kani::proof]
#[kani::unwind(6)]
#[kani::stub(std::fmt::format, stub_format)]
fn k04_enum_flags() {
    let has_underlying: bool = kani::any();
    let k: u8 = kani::any();
    kani::assume(k < 16);
    let optional: bool = kani::any();
    let compact: bool = kani::any();
    let unchecked: bool = kani::any();
    let empty: bool = kani::any();
    let which: u8 = kani::any();
    kani::assume(which < 3);
    let prim = OwnedPtr::new(kind(k));
    let e0 = enumerator(0, false);
    let enum_def = enum_with(&prim, &e0, has_underlying, optional, compact, unchecked, empty);
    let mut diagnostics = Diagnostics::verif_with_capacity(2);
    let (want, code) = if which == 0 {
        allowed_underlying_types(&enum_def, &mut diagnostics);
        (has_underlying && rule(k).is_none(), "E009")
    } else if which == 1 {
        underlying_type_cannot_be_optional(&enum_def, &mut diagnostics);
        (has_underlying && optional, "E007")
    } else {
        nonempty_if_checked(&enum_def, &mut diagnostics);
        (!unchecked && empty, "E008")
    };
    kani::cover!(which == 0 && want && k == 15, "string underlying type diagnosed reachable");
    kani::cover!(which == 1 && want, "optional underlying type diagnosed reachable");
    kani::cover!(which == 2 && want, "empty checked enum diagnosed reachable");
    kani::cover!(which == 2 && !want && empty, "empty unchecked enum accepted reachable");
    let ds = diagnostics.into_inner();
    assert!(ds.len() == want as usize, "the rule is diagnosed exactly when it is violated");
    if want {
        assert!(ds[0].code() == code, "with the code that belongs to the rule");
    }
    core::mem::forget(ds);
    core::mem::forget(enum_def);
    core::mem::forget(e0);
    core::mem::forget(prim);
}

//@ prop: C04
//@ family: K04-enum-flags
//@ tier: quick
//@ functions: validators::enums::check_compact_modifier
//@ inst: hand-built Enum, one enumerator; two concrete layouts selected symbolically: (underlying present, checked) and (no underlying, unchecked symbolic)
//@ inputs: is_compact; underlying kind; is_unchecked
//@ oracle: "compact enums neither unchecked nor backed": E036 iff compact and (backed or unchecked)
//@ stubs: std::fmt::format -> empty string
//@ bound: unwind 6; at most one diagnostic per layout
#[kani::proof]
#[kani::unwind(6)]
#[kani::stub(std::fmt::format, stub_format)]
fn k04_enum_compact() {
    let k: u8 = kani::any();
    kani::assume(k < 16);
    let compact: bool = kani::any();
    let unchecked: bool = kani::any();
    let backed_layout: bool = kani::any();
    let prim = OwnedPtr::new(kind(k));
    let e0 = enumerator(0, false);
    let mut diagnostics = Diagnostics::verif_with_capacity(2);
    let want;
    let enum_def;
    if backed_layout {
        enum_def = enum_with(&prim, &e0, true, false, compact, false, false);
        want = compact;
    } else {
        enum_def = enum_with(&prim, &e0, false, false, compact, unchecked, false);
        want = compact && unchecked;
    }
    check_compact_modifier(&enum_def, &mut diagnostics);
    kani::cover!(backed_layout && want, "compact backed enum diagnosed reachable");
    kani::cover!(!backed_layout && want, "compact unchecked enum diagnosed reachable");
    kani::cover!(!backed_layout && compact && !unchecked, "plain compact enum accepted reachable");
    let ds = diagnostics.into_inner();
    assert!(ds.len() == want as usize, "a compact enum is diagnosed exactly when it is backed or unchecked");
    if want {
        assert!(ds[0].code() == "E036", "with E036 (cannot be compact)");
    }
    core::mem::forget(ds);
    core::mem::forget(enum_def);
    core::mem::forget(e0);
    core::mem::forget(prim);
}

fn a_field(tagged: bool, tag: u32) -> OwnedPtr<Field> {
    OwnedPtr::new(Field {
        identifier: Identifier { value: String::new(), span: sp() },
        data_type: TypeRef {
            definition: TypeRefDefinition::Unpatched(Identifier { value: String::new(), span: sp() }),
            is_optional: true,
            scope: Scope::default(),
            attributes: Vec::new(),
            span: sp(),
        },
        tag: if tagged { Some(Integer { value: tag, span: sp() }) } else { None },
        parent: WeakPtr::create_uninitialized(),
        scope: Scope::default(),
        attributes: Vec::new(),
        comment: None,
        span: sp(),
    })
}
/// enumerator whose field list is absent (0), present but empty (1), or holds one field (2)
fn enumerator_with_fields(layout: u8, f: &OwnedPtr<Field>) -> OwnedPtr<Enumerator> {
    let fields = if layout == 0 {
        None
    } else if layout == 1 {
        Some(Vec::with_capacity(1))
    } else {
        let mut v = Vec::with_capacity(1);
        v.push(f.downgrade());
        Some(v)
    };
    OwnedPtr::new(Enumerator {
        identifier: Identifier { value: String::new(), span: sp() },
        value: EnumeratorValue::Implicit(0),
        fields,
        parent: WeakPtr::create_uninitialized(),
        scope: Scope::default(),
        attributes: Vec::new(),
        comment: None,
        span: sp(),
    })
}

//@ prop: C04
//@ family: K04-enum-fields
//@ tier: quick
//@ functions: validators::enums::cannot_contain_fields, validators::enums::compact_enums_cannot_contain_tags, Enumerator::fields
//@ inst: hand-built Enum with one enumerator whose field list is absent / empty / one field (three concrete layouts, symbolic selector); underlying uint8 for the first rule, none for the second
//@ inputs: which rule; field-list layout; is_compact; the field tagged or not (any u32)
//@ oracle: "no fields under an underlying type": E035 iff the enumerator has a field list (even an empty one); "compact types untagged": E015 iff compact and the field is tagged; nothing else
//@ stubs: std::fmt::format -> empty string
//@ bound: unwind 6; at most one diagnostic
#[kani::proof]
#[kani::unwind(6)]
#[kani::stub(std::fmt::format, stub_format)]
fn k04_enum_fields_rules() {
    let layout: u8 = kani::any();
    kani::assume(layout < 3);
    let tagged: bool = kani::any();
    let tag: u32 = kani::any();
    let compact: bool = kani::any();
    let first_rule: bool = kani::any();
    let prim = OwnedPtr::new(Primitive::UInt8);
    let f = a_field(tagged, tag);
    let e0 = if layout == 0 {
        enumerator_with_fields(0, &f)
    } else if layout == 1 {
        enumerator_with_fields(1, &f)
    } else {
        enumerator_with_fields(2, &f)
    };
    let mut diagnostics = Diagnostics::verif_with_capacity(2);
    let (want, code);
    let enum_def;
    if first_rule {
        enum_def = enum_with(&prim, &e0, true, false, false, false, false);
        cannot_contain_fields(&enum_def, &mut diagnostics);
        want = layout != 0;
        code = "E035";
    } else {
        enum_def = enum_with(&prim, &e0, false, false, compact, false, false);
        compact_enums_cannot_contain_tags(&enum_def, &mut diagnostics);
        want = compact && layout == 2 && tagged;
        code = "E015";
    }
    kani::cover!(first_rule && layout == 1, "empty field list under an underlying type reachable");
    kani::cover!(first_rule && layout == 0, "plain enumerator under an underlying type accepted reachable");
    kani::cover!(!first_rule && want, "tagged field in a compact enum reachable");
    kani::cover!(!first_rule && !compact && layout == 2 && tagged, "tagged field in an ordinary enum accepted reachable");
    let ds = diagnostics.into_inner();
    assert!(ds.len() == want as usize, "the rule is diagnosed exactly when it is violated");
    if want {
        assert!(ds[0].code() == code, "with the code that belongs to the rule");
    }
    core::mem::forget(ds);
    core::mem::forget(enum_def);
    core::mem::forget(e0);
    core::mem::forget(f);
    core::mem::forget(prim);
}
