//@@ group: slib
//@@ target: slicec/src/validators/identifiers.rs
//
// C04, "no redeclaration of an inherited operation": validate_inherited_identifiers on hand-built operations whose
// names are strings of concrete length with arbitrary characters.
use super::*;
use crate::slice_file::{Location, Span};
use crate::utils::ptr_util::WeakPtr;

fn stub_format(_a: core::fmt::Arguments<'_>) -> String {
    String::new()
}
fn sp() -> Span {
    Span { start: Location { row: 1, col: 1 }, end: Location { row: 1, col: 1 }, file: String::new() }
}
fn op(c0: u8, c1: u8) -> Operation {
    let mut name = String::with_capacity(2);
    name.push(c0 as char);
    name.push(c1 as char);
    Operation {
        identifier: Identifier { value: name, span: sp() },
        parameters: Vec::new(),
        return_type: Vec::new(),
        is_idempotent: false,
        parent: WeakPtr::create_uninitialized(),
        scope: Scope::default(),
        attributes: Vec::new(),
        comment: None,
        span: sp(),
    }
}

//@ prop: C04
//@ family: K04-shadow
//@ tier: quick
//@ functions: validators::identifiers::validate_inherited_identifiers (public rule entry), check_for_shadowing, NamedSymbol::raw_identifier
//@ inst: one declared operation and one inherited operation, both hand-built; names are 2-character ASCII strings
//@ inputs: both characters of the declared name and of the first inherited name (letters/digits range 0x30..0x7a)
//@ oracle: E011 (shadows) exactly when the declared name equals the inherited one, character for character; nothing else
//@ stubs: std::fmt::format -> empty string
//@ bound: unwind 6; at most one diagnostic
#[kani::proof]
#[kani::unwind(6)]
#[kani::stub(std::fmt::format, stub_format)]
fn k04_inherited_operation_shadowed() {
    let n: [u8; 4] = kani::any();
    kani::assume(n[0] >= 0x30 && n[0] <= 0x7a && n[1] >= 0x30 && n[1] <= 0x7a && n[2] >= 0x30 && n[2] <= 0x7a && n[3] >= 0x30 && n[3] <= 0x7a);
    let own = op(n[0], n[1]);
    let inherited0 = op(n[2], n[3]);
    let mut symbols: Vec<&Operation> = Vec::with_capacity(1);
    symbols.push(&own);
    let mut inherited: Vec<&Operation> = Vec::with_capacity(1);
    inherited.push(&inherited0);
    let mut diagnostics = Diagnostics::new();
    validate_inherited_identifiers(symbols, inherited, &mut diagnostics);
    let want = n[0] == n[2] && n[1] == n[3];
    kani::cover!(want, "same name reachable");
    kani::cover!(n[0] == n[2] && n[1] != n[3], "names differing in the last character reachable");
    kani::cover!(n[0] != n[2] && n[1] == n[3], "names differing in the first character reachable");
    let ds = diagnostics.into_inner();
    assert!(ds.len() == want as usize, "an operation is diagnosed exactly when it redeclares an inherited one");
    if want {
        assert!(ds[0].code() == "E011", "with E011 (shadows)");
    }
    core::mem::forget(ds);
    core::mem::forget(own);
    core::mem::forget(inherited0);
}

//@ prop: C04
//@ family: K04-shadow
//@ tier: quick
//@ functions: validators::identifiers::validate_inherited_identifiers (public rule entry), check_for_shadowing
//@ inst: one declared operation "ab" and two inherited operations: "cd" (concrete, cannot collide) and a second one with a symbolic 2-character name
//@ inputs: both characters of the second inherited name
//@ oracle: E011 exactly when the declared name equals the SECOND inherited name (every inherited operation is compared, not only the one at the same position); nothing else
//@ stubs: std::fmt::format -> empty string
//@ bound: unwind 6; at most one diagnostic (the first comparison is between concrete, different names)
#[kani::proof]
#[kani::unwind(6)]
#[kani::stub(std::fmt::format, stub_format)]
fn k04_inherited_operation_shadowed_second() {
    let n: [u8; 2] = kani::any();
    kani::assume(n[0] >= 0x30 && n[0] <= 0x7a && n[1] >= 0x30 && n[1] <= 0x7a);
    let own = op(b'a', b'b');
    let inherited0 = op(b'c', b'd');
    let inherited1 = op(n[0], n[1]);
    let mut symbols: Vec<&Operation> = Vec::with_capacity(1);
    symbols.push(&own);
    let mut inherited: Vec<&Operation> = Vec::with_capacity(2);
    inherited.push(&inherited0);
    inherited.push(&inherited1);
    let mut diagnostics = Diagnostics::new();
    validate_inherited_identifiers(symbols, inherited, &mut diagnostics);
    let want = n[0] == b'a' && n[1] == b'b';
    kani::cover!(want, "redeclaration of the second inherited operation reachable");
    kani::cover!(n[0] == b'a' && n[1] != b'b', "near miss reachable");
    let ds = diagnostics.into_inner();
    assert!(ds.len() == want as usize, "an operation is diagnosed exactly when it redeclares an inherited one, whichever position that one has");
    core::mem::forget(ds);
    core::mem::forget(own);
    core::mem::forget(inherited0);
    core::mem::forget(inherited1);
}
