//@@ group: slib
//@@ target: slicec/src/validators/members.rs
//
// C04, tag rules on hand-built members: "tags unique ... and only on optional members".  The members are real
// `Field` values (concrete count, every tag / tagged-ness / optionality symbolic); the real validate_members runs on
// them and the multiset of pushed error codes is compared with the rule.
use super::*;
use crate::slice_file::{Location, Span};
use crate::utils::ptr_util::WeakPtr;

fn stub_format(_a: core::fmt::Arguments<'_>) -> String {
    String::new()
}
fn sp() -> Span {
    Span { start: Location { row: 1, col: 1 }, end: Location { row: 1, col: 1 }, file: String::new() }
}
fn field(has_tag: bool, tag: u32, optional: bool) -> Field {
    Field {
        identifier: Identifier { value: String::new(), span: sp() },
        data_type: TypeRef {
            definition: TypeRefDefinition::Unpatched(Identifier { value: String::new(), span: sp() }),
            is_optional: optional,
            scope: Scope::default(),
            attributes: Vec::new(),
            span: sp(),
        },
        tag: if has_tag { Some(Integer { value: tag, span: sp() }) } else { None },
        parent: WeakPtr::create_uninitialized(),
        scope: Scope::default(),
        attributes: Vec::new(),
        comment: None,
        span: sp(),
    }
}
fn count(ds: &Vec<crate::diagnostics::Diagnostic>, code: &str) -> usize {
    let mut n = 0;
    let mut i = 0;
    while i < ds.len() {
        if ds[i].code() == code {
            n += 1;
        }
        i += 1;
    }
    n
}

macro_rules! tag_optional_case {
    ($ht:expr, $op:expr, $tg:ident) => {{
        let f0 = field(false, 0, false);
        let f1 = field($ht, $tg, $op);
        let mut members: Vec<&Field> = Vec::with_capacity(2);
        members.push(&f0);
        members.push(&f1);
        let mut diagnostics = Diagnostics::new();
        validate_members(members, &mut diagnostics);
        let want = $ht && !$op;
        let ds = diagnostics.into_inner();
        assert!(ds.len() == want as usize, "a member is diagnosed exactly when it is tagged and not optional");
        if want {
            assert!(ds[0].code() == "E016", "with E016 (tagged member must be optional)");
        }
        core::mem::forget(ds);
        core::mem::forget(f0);
        core::mem::forget(f1);
    }};
}

//@ prop: C04
//@ family: K04-members
//@ tier: quick
//@ functions: validators::members::validate_members (public rule entry), tags_have_optional_types, tags_are_unique, Member::{is_tagged, data_type}
//@ inst: Vec<&Field> of 2 hand-built fields, the first untagged and non-optional; the second in all four (tagged, optional) combinations (concrete layouts, symbolic selector)
//@ inputs: tagged x optional (4 concrete cases); the tag value (any u32)
//@ oracle: "tags ... only on optional members": E016 exactly when the field is tagged and not optional; nothing else
//@ stubs: std::fmt::format -> empty string
//@ bound: unwind 6; flags are enumerated as concrete cases (a symbolic flag makes the filter/collect/sort of the second rule allocate symbolic sizes)
#[kani::proof]
#[kani::unwind(6)]
#[kani::stub(std::fmt::format, stub_format)]
fn k04_tag_needs_optional() {
    let tg: u32 = kani::any();
    let case: u8 = kani::any();
    kani::assume(case < 4);
    kani::cover!(case == 2 && tg == 0, "tag 0 on a non-optional member reachable");
    kani::cover!(case == 3 && tg == 2147483647, "largest tag on an optional member reachable");
    if case == 0 {
        tag_optional_case!(false, false, tg)
    } else if case == 1 {
        tag_optional_case!(false, true, tg)
    } else if case == 2 {
        tag_optional_case!(true, false, tg)
    } else {
        tag_optional_case!(true, true, tg)
    }
}

//@ prop: C04
//@ family: K04-members
//@ tier: quick
//@ functions: validators::members::validate_members (public rule entry), tags_are_unique (filter, sort_by_key, windows), tags_have_optional_types, Member::tag
//@ inst: Vec<&Field> of exactly 3 hand-built optional fields: two tagged and, between them, an untagged one (concrete shape)
//@ inputs: the two tag values (any u32)
//@ oracle: "tags unique": E012 exactly when the two tags are equal (the untagged member in between neither hides nor causes it); nothing else
//@ stubs: std::fmt::format -> empty string
//@ bound: unwind 6; at most one diagnostic; which members are tagged is concrete (a symbolic number of tagged members makes the sort a > 7 GB problem)
#[kani::proof]
#[kani::unwind(6)]
#[kani::stub(std::fmt::format, stub_format)]
fn k04_tags_unique_2() {
    let tg: [u32; 2] = kani::any();
    let f0 = field(true, tg[0], true);
    let fm = field(false, 0, true);
    let f1 = field(true, tg[1], true);
    let mut members: Vec<&Field> = Vec::with_capacity(3);
    members.push(&f0);
    members.push(&fm);
    members.push(&f1);
    let mut diagnostics = Diagnostics::new();
    validate_members(members, &mut diagnostics);
    let want = tg[0] == tg[1];
    kani::cover!(want && tg[0] == 2147483647, "duplicate of the largest tag reachable");
    kani::cover!(want && tg[0] == 0, "duplicate of tag 0 (the untagged member's dummy value) reachable");
    kani::cover!(tg[0] > tg[1], "two distinct tags in descending order reachable");
    let ds = diagnostics.into_inner();
    assert!(ds.len() == want as usize, "a duplicate tag is diagnosed exactly when two tagged members share a tag");
    if want {
        assert!(ds[0].code() == "E012", "with E012 (duplicate tag)");
    }
    core::mem::forget(ds);
    core::mem::forget(f0);
    core::mem::forget(fm);
    core::mem::forget(f1);
}

//@ prop: C04
//@ family: K04-members
//@ tier: thorough
//@ functions: validators::members::validate_members (public rule entry), tags_are_unique
//@ inst: Vec<&Field> of exactly 3 hand-built optional tagged fields, the first two with distinct tags
//@ inputs: three tag values (any u32) with tag0 != tag1 assigned by construction (tag1 = tag0 + 1 + d)
//@ oracle: E012 exactly when the third tag equals one of the first two (sorting must bring the equal pair together wherever it stands); nothing else
//@ stubs: std::fmt::format -> empty string
//@ bound: unwind 7; at most one diagnostic
//@ timeout: 1500
#[kani::proof]
#[kani::unwind(7)]
#[kani::stub(std::fmt::format, stub_format)]
fn k04_tags_unique_3() {
    let t0: u32 = kani::any();
    let d: u32 = kani::any();
    let t2: u32 = kani::any();
    let t1 = t0.wrapping_add(1).wrapping_add(d % 1000);
    kani::assume(t1 != t0);
    let order: u8 = kani::any();
    kani::assume(order < 3);
    // the three members in a symbolic one of three rotations, so the duplicate pair is not always adjacent in source order
    let (a, b, c) = if order == 0 { (t0, t1, t2) } else if order == 1 { (t2, t0, t1) } else { (t0, t2, t1) };
    let f0 = field(true, a, true);
    let f1 = field(true, b, true);
    let f2 = field(true, c, true);
    let mut members: Vec<&Field> = Vec::with_capacity(3);
    members.push(&f0);
    members.push(&f1);
    members.push(&f2);
    let mut diagnostics = Diagnostics::new();
    validate_members(members, &mut diagnostics);
    let want = t2 == t0 || t2 == t1;
    kani::cover!(want && order == 2 && t0 < t1, "equal tags first and second in source, third larger reachable");
    kani::cover!(want && order == 1, "duplicate first in source order reachable");
    kani::cover!(!want, "three distinct tags reachable");
    let ds = diagnostics.into_inner();
    assert!(ds.len() == want as usize, "a duplicate tag among three members is diagnosed wherever the pair stands");
    core::mem::forget(ds);
    core::mem::forget(f0);
    core::mem::forget(f1);
    core::mem::forget(f2);
}
