//@@ group: slib
//@@ target: slicec/src/validators/parameters.rs
//
// C04, "'stream' only on the single last parameter": every stream placement over 3 hand-built parameters.
use super::*;
use crate::slice_file::{Location, Span};
use crate::utils::ptr_util::WeakPtr;

fn stub_format(_a: core::fmt::Arguments<'_>) -> String {
    String::new()
}
fn sp() -> Span {
    Span { start: Location { row: 1, col: 1 }, end: Location { row: 1, col: 1 }, file: String::new() }
}
fn param(streamed: bool) -> Parameter {
    Parameter {
        identifier: Identifier { value: String::new(), span: sp() },
        data_type: TypeRef {
            definition: TypeRefDefinition::Unpatched(Identifier { value: String::new(), span: sp() }),
            is_optional: false,
            scope: Scope::default(),
            attributes: Vec::new(),
            span: sp(),
        },
        tag: None,
        is_streamed: streamed,
        parent: WeakPtr::create_uninitialized(),
        scope: Scope::default(),
        attributes: Vec::new(),
        span: sp(),
    }
}
fn count(ds: &Vec<crate::diagnostics::Diagnostic>, code: &str) -> usize {
    let mut n = 0;
    let mut i = 0;
    while i < ds.len() {
        if ds[i].code() == code {
            n += 1;
        }
        i += 1;
    }
    n
}

macro_rules! stream_case_3 {
    ($s0:expr, $s1:expr, $s2:expr) => {{
        let p0 = param($s0);
        let p1 = param($s1);
        let p2 = param($s2);
        let mut ps: Vec<&Parameter> = Vec::with_capacity(3);
        ps.push(&p0);
        ps.push(&p1);
        ps.push(&p2);
        let mut diagnostics = Diagnostics::new();
        validate_parameters(&ps[..], &mut diagnostics);
        let ds = diagnostics.into_inner();
        let streamed = $s0 as usize + $s1 as usize + $s2 as usize;
        let want_e013 = $s0 as usize + $s1 as usize;
        let want_e029 = if streamed > 1 { streamed - 1 } else { 0 };
        assert!((ds.len() == 0) == (!$s0 && !$s1), "accepted exactly when 'stream' appears at most on the last parameter");
        assert!(count(&ds, "E013") == want_e013, "every streamed parameter that is not last is diagnosed");
        assert!(count(&ds, "E029") == want_e029, "multiple streamed parameters are diagnosed");
        assert!(ds.len() == want_e013 + want_e029, "no other diagnostic is produced");
        core::mem::forget(ds);
        core::mem::forget(ps);
        core::mem::forget(p0);
        core::mem::forget(p1);
        core::mem::forget(p2);
    }};
}

//@ prop: C04
//@ family: K04-params
//@ tier: quick
//@ functions: validators::parameters::validate_parameters (public rule entry), stream_parameter_is_last, at_most_one_stream_parameter
//@ inst: &[&Parameter] of exactly 3 hand-built parameters; all 8 stream placements as concrete layouts behind a symbolic selector
//@ inputs: the placement (8 cases: exhaustive for three boolean flags)
//@ oracle: accepted iff no parameter other than the last is streamed; E013 once per streamed parameter that is not last; E029 once per streamed parameter beyond the first when several are streamed; nothing else
//@ stubs: std::fmt::format -> empty string
//@ bound: unwind 6; flags enumerated as concrete cases, so every diagnostic lands at a concrete position
//@ timeout: 900
#[kani::proof]
#[kani::unwind(6)]
#[kani::stub(std::fmt::format, stub_format)]
fn k04_stream_placement_3() {
    let case: u8 = kani::any();
    kani::assume(case < 8);
    kani::cover!(case == 2, "stream on the middle parameter only reachable");
    kani::cover!(case == 7, "three streamed parameters reachable");
    kani::cover!(case == 1, "stream on the last parameter only reachable");
    if case == 0 {
        stream_case_3!(false, false, false)
    } else if case == 1 {
        stream_case_3!(false, false, true)
    } else if case == 2 {
        stream_case_3!(false, true, false)
    } else if case == 3 {
        stream_case_3!(false, true, true)
    } else if case == 4 {
        stream_case_3!(true, false, false)
    } else if case == 5 {
        stream_case_3!(true, false, true)
    } else if case == 6 {
        stream_case_3!(true, true, false)
    } else {
        stream_case_3!(true, true, true)
    }
}

