//@@ group: slib
//@@ target: slicec/src/validators/parameters.rs
//
// C04, "'stream' only on the single last parameter": every stream placement over 3 hand-built parameters.
use super::*;
use crate::slice_file::{Location, Span};
use crate::utils::ptr_util::WeakPtr;

fn stub_format(_a: core::fmt::Arguments<'_>) -> String {
    String::new()
}
fn sp() -> Span {
    Span { start: Location { row: 1, col: 1 }, end: Location { row: 1, col: 1 }, file: String::new() }
}
fn param(streamed: bool) -> Parameter {
    Parameter {
        identifier: Identifier { value: String::new(), span: sp() },
        data_type: TypeRef {
            definition: TypeRefDefinition::Unpatched(Identifier { value: String::new(), span: sp() }),
            is_optional: false,
            scope: Scope::default(),
            attributes: Vec::new(),
            span: sp(),
        },
        tag: None,
        is_streamed: streamed,
        parent: WeakPtr::create_uninitialized(),
        scope: Scope::default(),
        attributes: Vec::new(),
        span: sp(),
    }
}
fn count(ds: &Vec<crate::diagnostics::Diagnostic>, code: &str) -> usize {
    let mut n = 0;
    let mut i = 0;
    while i < ds.len() {
        if ds[i].code() == code {
            n += 1;
        }
        i += 1;
    }
    n
}

macro_rules! stream_last_3 {
    ($s0:expr, $s1:expr, $s2:expr, $want:expr) => {{
        let p0 = param($s0);
        let p1 = param($s1);
        let p2 = param($s2);
        let mut ps: Vec<&Parameter> = Vec::with_capacity(3);
        ps.push(&p0);
        ps.push(&p1);
        ps.push(&p2);
        let mut diagnostics = Diagnostics::verif_with_capacity(2);
        stream_parameter_is_last(&ps[..], &mut diagnostics);
        let ds = diagnostics.into_inner();
        assert!(ds.len() == $want as usize, "a streamed parameter is diagnosed exactly when it is not the last one");
        if $want {
            assert!(ds[0].code() == "E013", "with E013 (streamed members must be last)");
        }
        core::mem::forget(ds);
        core::mem::forget(ps);
        core::mem::forget(p0);
        core::mem::forget(p1);
        core::mem::forget(p2);
    }};
}

//@ prop: C04
//@ family: K04-params
//@ tier: quick
//@ functions: validators::parameters::stream_parameter_is_last
//@ inst: &[&Parameter] of exactly 3 hand-built parameters; two concrete layouts selected symbolically: (x, plain, y) and (plain, x, y)
//@ inputs: is_streamed of the symbolic positions: stream on the first, on the middle, on the last parameter, and combinations with the last
//@ oracle: "'stream' only on the ... last parameter": E013 exactly when the first resp. middle parameter is streamed, whatever the last one is; nothing else
//@ stubs: std::fmt::format -> empty string
//@ bound: unwind 6; at most one diagnostic per layout (a data-dependent position in the diagnostics vector costs > 10 GB)
#[kani::proof]
#[kani::unwind(6)]
#[kani::stub(std::fmt::format, stub_format)]
fn k04_stream_not_last_3() {
    let x: bool = kani::any();
    let y: bool = kani::any();
    let first: bool = kani::any();
    kani::cover!(first && x && !y, "stream on the first parameter only reachable");
    kani::cover!(!first && x && !y, "stream on the middle parameter only reachable");
    kani::cover!(!x && y, "stream on the last parameter only reachable");
    if first {
        stream_last_3!(x, false, y, x)
    } else {
        stream_last_3!(false, x, y, x)
    }
}

//@ prop: C04
//@ family: K04-params
//@ tier: quick
//@ functions: validators::parameters::at_most_one_stream_parameter
//@ inst: &[&Parameter] of exactly 2 hand-built parameters
//@ inputs: is_streamed of both
//@ oracle: "'stream' only on the single last parameter": E029 exactly when both are streamed (one diagnostic); nothing else
//@ stubs: std::fmt::format -> empty string
//@ bound: unwind 6
#[kani::proof]
#[kani::unwind(6)]
#[kani::stub(std::fmt::format, stub_format)]
fn k04_single_stream_2() {
    let st: [bool; 2] = kani::any();
    let p0 = param(st[0]);
    let p1 = param(st[1]);
    let mut ps: Vec<&Parameter> = Vec::with_capacity(2);
    ps.push(&p0);
    ps.push(&p1);
    let mut diagnostics = Diagnostics::verif_with_capacity(2);
    at_most_one_stream_parameter(&ps[..], &mut diagnostics);
    let want = st[0] && st[1];
    kani::cover!(want, "two streamed parameters reachable");
    kani::cover!(st[1] && !st[0], "single streamed last parameter reachable");
    let ds = diagnostics.into_inner();
    assert!(ds.len() == want as usize, "multiple streamed parameters are diagnosed, a single one is not");
    if want {
        assert!(ds[0].code() == "E029", "with E029 (multiple streamed members)");
    }
    core::mem::forget(ds);
    core::mem::forget(ps);
    core::mem::forget(p0);
    core::mem::forget(p1);
}
