//@@ group: slib
//@@ target: slicec/src/validators/structs.rs
//
// C04, struct rules on a hand-built struct: "compact structs non-empty", "compact types untagged".
use super::*;
use crate::slice_file::{Location, Span};
use crate::utils::ptr_util::{OwnedPtr, WeakPtr};

fn stub_format(_a: core::fmt::Arguments<'_>) -> String {
    String::new()
}
fn sp() -> Span {
    Span { start: Location { row: 1, col: 1 }, end: Location { row: 1, col: 1 }, file: String::new() }
}
fn field(has_tag: bool, tag: u32, optional: bool) -> OwnedPtr<Field> {
    OwnedPtr::new(Field {
        identifier: Identifier { value: String::new(), span: sp() },
        data_type: TypeRef {
            definition: TypeRefDefinition::Unpatched(Identifier { value: String::new(), span: sp() }),
            is_optional: optional,
            scope: Scope::default(),
            attributes: Vec::new(),
            span: sp(),
        },
        tag: if has_tag { Some(Integer { value: tag, span: sp() }) } else { None },
        parent: WeakPtr::create_uninitialized(),
        scope: Scope::default(),
        attributes: Vec::new(),
        comment: None,
        span: sp(),
    })
}
fn struct_with(f: &OwnedPtr<Field>, empty: bool, compact: bool) -> Struct {
    let mut fields = Vec::with_capacity(1);
    if !empty {
        fields.push(f.downgrade());
    }
    Struct {
        identifier: Identifier { value: String::new(), span: sp() },
        fields,
        is_compact: compact,
        scope: Scope::default(),
        attributes: Vec::new(),
        comment: None,
        span: sp(),
    }
}

//@ prop: C04
//@ family: K04-struct
//@ tier: quick
//@ functions: validators::structs::validate_struct, validate_compact_struct_not_empty, compact_structs_cannot_contain_tags, Struct::fields, Member::is_tagged
//@ inst: hand-built Struct with 0 or 1 field (two concrete layouts, symbolic selector), the field a real Field behind a WeakPtr
//@ inputs: is_compact; empty or one field; the field tagged or not (any u32 tag)
//@ oracle: E018 iff compact and empty; E015 iff compact and the field is tagged; never both (an empty struct has no field); nothing else
//@ stubs: std::fmt::format -> empty string
//@ bound: unwind 6; at most one diagnostic
#[kani::proof]
#[kani::unwind(6)]
#[kani::stub(std::fmt::format, stub_format)]
fn k04_struct_compact_rules() {
    let compact: bool = kani::any();
    let empty: bool = kani::any();
    let tagged: bool = kani::any();
    let tag: u32 = kani::any();
    let f = field(tagged, tag, true);
    let mut diagnostics = Diagnostics::verif_with_capacity(2);
    let s;
    if empty {
        s = struct_with(&f, true, compact);
    } else {
        s = struct_with(&f, false, compact);
    }
    validate_struct(&s, &mut diagnostics);
    let e018 = compact && empty;
    let e015 = compact && !empty && tagged;
    kani::cover!(e018, "empty compact struct reachable");
    kani::cover!(e015 && tag == 0, "compact struct with a field tagged 0 reachable");
    kani::cover!(!compact && !empty && tagged, "tagged field in an ordinary struct accepted reachable");
    kani::cover!(!compact && empty, "empty ordinary struct accepted reachable");
    let ds = diagnostics.into_inner();
    assert!(ds.len() == (e018 || e015) as usize, "a compact struct is diagnosed exactly when it is empty or has a tagged field");
    if e018 {
        assert!(ds[0].code() == "E018", "empty compact struct: E018");
    }
    if e015 {
        assert!(ds[0].code() == "E015", "tagged field in a compact struct: E015");
    }
    core::mem::forget(ds);
    core::mem::forget(s);
    core::mem::forget(f);
}
