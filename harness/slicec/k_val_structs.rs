//@@ group: slib
//@@ target: slicec/src/validators/structs.rs
//
// C04, struct rules on a hand-built struct: "compact structs non-empty", "compact types untagged".
use super::*;
use crate::slice_file::{Location, Span};
use crate::utils::ptr_util::{OwnedPtr, WeakPtr};

fn stub_format(_a: core::fmt::Arguments<'_>) -> String {
    String::new()
}
fn sp() -> Span {
    Span { start: Location { row: 1, col: 1 }, end: Location { row: 1, col: 1 }, file: String::new() }
}
fn field(has_tag: bool, tag: u32, optional: bool) -> OwnedPtr<Field> {
    OwnedPtr::new(Field {
        identifier: Identifier { value: String::new(), span: sp() },
        data_type: TypeRef {
            definition: TypeRefDefinition::Unpatched(Identifier { value: String::new(), span: sp() }),
            is_optional: optional,
            scope: Scope::default(),
            attributes: Vec::new(),
            span: sp(),
        },
        tag: if has_tag { Some(Integer { value: tag, span: sp() }) } else { None },
        parent: WeakPtr::create_uninitialized(),
        scope: Scope::default(),
        attributes: Vec::new(),
        comment: None,
        span: sp(),
    })
}
fn struct_with(f: &OwnedPtr<Field>, empty: bool, compact: bool) -> Struct {
    let mut fields = Vec::with_capacity(1);
    if !empty {
        fields.push(f.downgrade());
    }
    Struct {
        identifier: Identifier { value: String::new(), span: sp() },
        fields,
        is_compact: compact,
        scope: Scope::default(),
        attributes: Vec::new(),
        comment: None,
        span: sp(),
    }
}

//@ prop: C04
//@ family: K04-struct
//@ tier: quick
//@ functions: validators::structs::validate_struct, validate_compact_struct_not_empty, compact_structs_cannot_contain_tags, Struct::fields
//@ inst: hand-built Struct without fields
//@ inputs: is_compact
//@ oracle: "compact structs non-empty": E018 iff compact; nothing else
//@ stubs: std::fmt::format -> empty string
//@ bound: unwind 6; concrete shape (a symbolic number of fields makes Struct::fields() allocate a symbolic size: > 11 GB)
#[kani::proof]
#[kani::unwind(6)]
#[kani::stub(std::fmt::format, stub_format)]
fn k04_struct_empty() {
    let compact: bool = kani::any();
    let f = field(false, 0, true);
    let s = struct_with(&f, true, compact);
    let mut diagnostics = Diagnostics::new();
    validate_struct(&s, &mut diagnostics);
    kani::cover!(compact, "empty compact struct reachable");
    kani::cover!(!compact, "empty ordinary struct reachable");
    let ds = diagnostics.into_inner();
    assert!(ds.len() == compact as usize, "an empty struct is diagnosed exactly when it is compact");
    if compact {
        assert!(ds[0].code() == "E018", "with E018 (compact struct cannot be empty)");
    }
    core::mem::forget(ds);
    core::mem::forget(s);
    core::mem::forget(f);
}

//@ prop: C04
//@ family: K04-struct
//@ tier: quick
//@ functions: validators::structs::validate_struct, compact_structs_cannot_contain_tags, Struct::fields, Member::is_tagged
//@ inst: hand-built Struct with exactly one field behind a WeakPtr
//@ inputs: is_compact; the field tagged or not (any u32 tag)
//@ oracle: "compact types untagged": E015 iff compact and the field is tagged; a non-empty struct is never E018; nothing else
//@ stubs: std::fmt::format -> empty string
//@ bound: unwind 6; concrete shape
#[kani::proof]
#[kani::unwind(6)]
#[kani::stub(std::fmt::format, stub_format)]
fn k04_struct_one_field() {
    let compact: bool = kani::any();
    let tagged: bool = kani::any();
    let tag: u32 = kani::any();
    let f = field(tagged, tag, true);
    let s = struct_with(&f, false, compact);
    let mut diagnostics = Diagnostics::new();
    validate_struct(&s, &mut diagnostics);
    let want = compact && tagged;
    kani::cover!(want && tag == 0, "compact struct with a field tagged 0 reachable");
    kani::cover!(!compact && tagged, "tagged field in an ordinary struct accepted reachable");
    kani::cover!(compact && !tagged, "untagged compact struct accepted reachable");
    let ds = diagnostics.into_inner();
    assert!(ds.len() == want as usize, "a non-empty struct is diagnosed exactly when it is compact and has a tagged field");
    if want {
        assert!(ds[0].code() == "E015", "with E015 (compact type cannot contain tagged fields)");
    }
    core::mem::forget(ds);
    core::mem::forget(s);
    core::mem::forget(f);
}
