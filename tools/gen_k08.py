#!/usr/bin/env python3
"""gen_k08.py <scratch repo> <out.rs>

Derives, from slice/Compiler/*.slice in the (scratch copy of the) repository, an independent *reference encoder* and a
*bounded arbitrary-value builder* for every type of the Compiler schema that the compiler encodes, as Rust source
included by harness/slicec/k08_enc.rs.  The reference follows the Slice2 encoding rules, not definition_types.rs:

  struct (non compact)   bit sequence (1 bit per optional non-tagged field, LSB first, ceil(n/8) bytes), the fields in
                         schema order (optional ones only when set), tag end marker 0xFC
  enum with fields       discriminant as varint32, the enumerator's fields, tag end marker
  string / Sequence<T>   size as varuint62, then bytes / elements;  Dictionary<K,V>: size, then key, value pairs
  bool 1 byte; uint8 1; int32 4 LE; uint64 8 LE; varint32 variable width

Schema field `fooBar` maps to Rust field `foo_bar` (`\\tag` to `tag`); enumerator `Name(v: T)` to `Enum::Name(v)`.
Exits 3 when the schema no longer parses or its set of encoded types differs from the list given with --expect
(so that a schema edit makes the check inconclusive instead of silently stale)."""
import re, sys, os, glob

PRIMS = {"string", "bool", "uint8", "int32", "uint64", "varint32"}


def snake(n):
    n = n.lstrip("\\")
    return re.sub(r"([A-Z])", lambda m: "_" + m.group(1).lower(), n)


def parse(repo):
    structs, enums, aliases, order = {}, {}, {}, []
    for f in sorted(glob.glob(os.path.join(repo, "slice", "Compiler", "*.slice"))):
        txt = open(f).read()
        txt = re.sub(r"//[^\n]*", "", txt)
        txt = re.sub(r"\[[^\]]*\]", "", txt)  # attributes
        for m in re.finditer(r"typealias\s+(\w+)\s*=\s*([^\n]+)", txt):
            aliases[m.group(1)] = m.group(2).strip()
        for m in re.finditer(r"(compact\s+)?struct\s+(\w+)\s*\{([^}]*)\}", txt):
            if m.group(1):
                raise SystemExit("compact struct in schema: not handled by the reference")
            fields = []
            for ln in m.group(3).split("\n"):
                ln = ln.strip().rstrip(",")
                if not ln:
                    continue
                fm = re.match(r"(tag\(\d+\)\s+)?(\\?\w+)\s*:\s*(.+)$", ln)
                if not fm:
                    raise SystemExit(f"cannot parse field '{ln}' of {m.group(2)}")
                if fm.group(1):
                    raise SystemExit("tagged field in schema: not handled by the reference")
                fields.append((fm.group(2), fm.group(3).strip()))
            structs[m.group(2)] = fields
            order.append(m.group(2))
        for m in re.finditer(r"(unchecked\s+)?(compact\s+)?enum\s+(\w+)\s*(?::\s*(\w+)\s*)?\{([^}]*)\}", txt):
            variants = []
            for ln in m.group(5).split("\n"):
                ln = ln.strip().rstrip(",")
                if not ln:
                    continue
                vm = re.match(r"(\w+)\s*(?:\(([^)]*)\))?\s*(?:=\s*(\d+))?$", ln)
                if not vm:
                    raise SystemExit(f"cannot parse enumerator '{ln}' of {m.group(3)}")
                vf = []
                if vm.group(2):
                    for part in vm.group(2).split(","):
                        pn, pt = part.split(":")
                        vf.append((pn.strip(), pt.strip()))
                variants.append((vm.group(1), vf, int(vm.group(3)) if vm.group(3) else None))
            enums[m.group(3)] = dict(underlying=m.group(4), compact=bool(m.group(2)), variants=variants)
            order.append(m.group(3))
    return structs, enums, aliases, order


def resolve(t, aliases):
    while t in aliases:
        t = aliases[t]
    return t


def reachable(roots, structs, enums, aliases):
    seen, todo = [], list(roots)
    while todo:
        t = resolve(todo.pop(0), aliases)
        opt = t.endswith("?")
        t = t.rstrip("?")
        m = re.match(r"Sequence<(.+)>$", t)
        if m:
            todo.append(m.group(1))
            continue
        m = re.match(r"Dictionary<(.+),\s*(.+)>$", t)
        if m:
            todo += [m.group(1), m.group(2)]
            continue
        if t in PRIMS or t in seen:
            continue
        seen.append(t)
        if t in structs:
            todo += [ft for _, ft in structs[t]]
        elif t in enums:
            for _, vf, _ in enums[t]["variants"]:
                todo += [ft for _, ft in vf]
        else:
            raise SystemExit(f"unknown type {t}")
    return seen


class Gen:
    def __init__(self, structs, enums, aliases):
        self.s, self.e, self.a = structs, enums, aliases
        self.out = []

    # ---- reference encoder: Rust expression statements writing into `e: &mut Exp`
    def enc(self, t, expr):
        """expr is a Rust expression of type &T"""
        t = resolve(t, self.a)
        if t == "string":
            return f"e.string({expr});"
        if t == "bool":
            return f"e.byte(*{expr} as u8);"
        if t == "uint8":
            return f"e.byte(*{expr});"
        if t == "int32":
            return f"e.le(*{expr} as u32 as u64, 4);"
        if t == "uint64":
            return f"e.le(*{expr}, 8);"
        if t == "varint32":
            return f"e.varint(*{expr} as i64);"
        m = re.match(r"Sequence<(.+)>$", t)
        if m:
            return f"e.size(({expr}).len()); for x in ({expr}).iter() {{ {self.enc(m.group(1), 'x')} }}"
        if t in self.s or t in self.e:
            return f"ref_{t}({expr}, e);"
        raise SystemExit(f"no reference encoding for {t}")

    def gen_struct(self, name):
        fields = self.s[name]
        o = [f"#[allow(non_snake_case)]\nfn ref_{name}(v: &{name}, e: &mut Exp) {{"]
        opts = [(fn, ft) for fn, ft in fields if resolve(ft, self.a).endswith("?")]
        if opts:
            nbytes = (len(opts) + 7) // 8
            o.append(f"    let mut bits = [0u8; {nbytes}];")
            for i, (fn, ft) in enumerate(opts):
                o.append(f"    if v.{snake(fn)}.is_some() {{ bits[{i // 8}] |= 1 << {i % 8}; }}")
            o.append(f"    let mut i = 0; while i < {nbytes} {{ e.byte(bits[i]); i += 1; }}")
        for fn, ft in fields:
            rt = resolve(ft, self.a)
            if rt.endswith("?"):
                o.append(f"    if let Some(x) = &v.{snake(fn)} {{ {self.enc(rt[:-1], 'x')} }}")
            else:
                o.append(f"    {self.enc(rt, '&v.' + snake(fn))}")
        o.append("    e.byte(0xFC); // tag end marker: varint32 -1\n}")
        self.out.append("\n".join(o))

    def gen_enum(self, name):
        en = self.e[name]
        o = [f"#[allow(non_snake_case)]\nfn ref_{name}(v: &{name}, e: &mut Exp) {{\n    match v {{"]
        disc = 0
        for vn, vf, explicit in en["variants"]:
            if explicit is not None:
                disc = explicit
            binds = ", ".join(fn for fn, _ in vf)
            body = " ".join(self.enc(ft, fn) for fn, ft in vf)
            o.append(f"        {name}::{vn}({binds}) => {{ e.varint({disc}); {body} e.byte(0xFC); }}")
            disc += 1
        o.append("    }\n}")
        self.out.append("\n".join(o))

    # ---- bounded arbitrary values with a CONCRETE shape: fn any_T(d: u32, s: usize) -> T
    # d = nesting budget: every sequence has exactly one element while d > 0 (built with d - 1) and is empty at d == 0;
    # an optional struct is Some while d > 0; an optional scalar is symbolic; every string has exactly s (0 or 1)
    # arbitrary ASCII bytes.  Symbolic lengths are avoided on purpose: they cost CBMC tens of gigabytes (DESIGN 2.7).
    def any(self, t, d):
        t = resolve(t, self.a)
        if t == "string":
            return "any_string(s)"
        if t == "bool":
            return "kani::any::<bool>()"
        if t == "uint8":
            return "kani::any::<u8>()"
        if t == "int32":
            return "kani::any::<i32>()"
        if t == "uint64":
            return "kani::any::<u64>()"
        if t == "varint32":
            return "kani::any::<i32>()"
        if t.endswith("?"):
            inner = resolve(t[:-1], self.a)
            if inner in PRIMS and inner != "string":
                return f"(if kani::any::<bool>() {{ Some({self.any(inner, d)}) }} else {{ None }})"
            return f"(if {d} > 0 {{ Some({self.any(inner, f'({d} - 1)')}) }} else {{ None }})"
        m = re.match(r"Sequence<(.+)>$", t)
        if m:
            return f"{{ let mut q = Vec::with_capacity(1); if {d} > 0 {{ q.push({self.any(m.group(1), f'({d} - 1)')}); }} q }}"
        return f"any_{t}({d}, s)"

    def gen_any_struct(self, name):
        o = [f"#[allow(non_snake_case, unused_variables)]\nfn any_{name}(d: u32, s: usize) -> {name} {{\n    {name} {{"]
        for fn, ft in self.s[name]:
            o.append(f"        {snake(fn)}: {self.any(ft, 'd')},")
        o.append("    }\n}")
        self.out.append("\n".join(o))

    def gen_any_enum(self, name):
        # one builder per enumerator: a harness fixes the enumerator and keeps the payload symbolic
        for i, (vn, vf, _) in enumerate(self.e[name]["variants"]):
            args = ", ".join(self.any(ft, "d") for _, ft in vf)
            self.out.append(f"#[allow(non_snake_case, unused_variables)]\nfn any_{name}_{vn}(d: u32, s: usize) -> {name} {{ {name}::{vn}({args}) }}")
        first = self.e[name]["variants"][0][0]
        self.out.append(f"#[allow(non_snake_case)]\nfn any_{name}(d: u32, s: usize) -> {name} {{ any_{name}_{first}(d, s) }}")


PRELUDE = r'''
// ---- generated by tools/gen_k08.py from slice/Compiler/*.slice : do not edit ----
pub(super) struct Exp { pub buf: [u8; CAP], pub n: usize }
impl Exp {
    pub fn new() -> Exp { Exp { buf: [0u8; CAP], n: 0 } }
    pub fn byte(&mut self, b: u8) { if self.n < CAP { self.buf[self.n] = b; } self.n += 1; }
    pub fn le(&mut self, v: u64, w: usize) { let mut i = 0; while i < 8 { if i < w { self.byte((v >> (8 * i as u32)) as u8); } i += 1; } }
    /// varuint62 of a size (sizes here are < 64, but the rule is written out in full)
    pub fn size(&mut self, n: usize) {
        let v = n as u64;
        if v < 64 { self.le(v << 2, 1) } else if v < 16384 { self.le((v << 2) | 1, 2) } else if v < 1073741824 { self.le((v << 2) | 2, 4) } else { self.le((v << 2) | 3, 8) }
    }
    pub fn varint(&mut self, v: i64) {
        let p = (v << 2) as u64;
        if v >= -32 && v < 32 { self.le(p & 0xff, 1) } else if v >= -8192 && v < 8192 { self.le((p | 1) & 0xffff, 2) }
        else if v >= -536870912 && v < 536870912 { self.le((p | 2) & 0xffff_ffff, 4) } else { self.le(p | 3, 8) }
    }
    pub fn string(&mut self, s: &String) { let b = s.as_bytes(); self.size(b.len()); let mut i = 0; while i < 2 { if i < b.len() { self.byte(b[i]); } i += 1; } }
}
/// a string of exactly n (0 or 1) arbitrary ASCII bytes
fn any_string(n: usize) -> String {
    // even the empty string owns an allocation: String::new()'s dangling (integer-address) pointer makes CBMC's pointer
    // analysis give up precision and the harnesses time out
    let mut s = String::with_capacity(1);
    if n > 0 { let b: u8 = kani::any(); kani::assume(b < 0x80); s.push(b as char); }
    s
}
'''


def main():
    repo, out = sys.argv[1], sys.argv[2]
    expect = None
    if "--expect" in sys.argv:
        expect = sys.argv[sys.argv.index("--expect") + 1].split()
    structs, enums, aliases, order = parse(repo)
    roots = ["SliceFile"]
    types = reachable(roots, structs, enums, aliases)
    if expect is not None and sorted(types) != sorted(expect):
        print(f"schema types encoded by the compiler changed: now {sorted(types)}, harnesses exist for {sorted(expect)}", file=sys.stderr)
        sys.exit(3)
    g = Gen(structs, enums, aliases)
    for t in types:
        if t in structs:
            g.gen_struct(t)
            g.gen_any_struct(t)
        else:
            g.gen_enum(t)
            g.gen_any_enum(t)
    arg_t = resolve("Arguments", aliases)
    if not re.match(r"Dictionary<\s*string\s*,\s*string\s*>$", arg_t):
        print("Arguments is no longer Dictionary<string, string>", file=sys.stderr)
        sys.exit(3)
    with open(out, "w") as f:
        f.write(PRELUDE + "\n\n" + "\n\n".join(g.out) + "\n")
        f.write("\n// schema, as parsed:\n")
        for t in types:
            if t in structs:
                f.write(f"//   struct {t} {{ " + "; ".join(f"{a}: {b}" for a, b in structs[t]) + " }\n")
            else:
                f.write(f"//   enum {t} {{ " + "; ".join(v[0] for v in enums[t]["variants"]) + " }\n")


if __name__ == "__main__":
    main()
