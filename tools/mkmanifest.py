#!/usr/bin/env python3
"""Regenerates /verif/MANIFEST.json from the table below (claims) and the not-applicable reasons."""
import json, os
V = os.path.dirname(os.path.dirname(os.path.abspath(__file__)))
TECH = "bounded model checking of the real functions (Kani 0.68 harnesses over kani::any() inputs, decided by CBMC 6.11 + CaDiCaL; counterexamples replayed natively)"
CLAIMS = {
 "C10": dict(
  text="For every harness the SAT solver decides, for ALL values inside the stated bound, that the real Encoder/Decoder produce exactly the bytes of an independent bit-level reference of the wire format and round-trip: full 2^8..2^64 value domains for every fixed-width type, float bit pattern, varint/varuint/size (all width thresholds, refusal outside 62 bits with nothing written), every valid UTF-8 string of 0..3 bytes, small sequences (incl. nesting depth 2) and BTreeMap dictionaries. Exhaustive in value, bounded in size; sizes beyond the bound are outside the claim.",
  note="Trusted: Kani/CBMC's model of Rust and of the allocator (never fails); the reference encodings written in the harnesses from the property text; instantiations Encoder<SliceOutputTarget> / Decoder<SliceInputSource> only (VecOutputTarget separately under C12). Not covered: strings > 3 bytes, collections > 3 elements, depth 3, HashMap round trip, tokio feature.",
  ref="DESIGN.md section 3, C10"),
 "C11": dict(
  text="For EVERY byte string inside the stated bounds (9 arbitrary bytes for each primitive / varint target type; strings, sequences, BTreeMap dictionaries and skip_tagged_fields with concrete announced counts and arbitrary content; announced sizes up to 2^62-1 with too few bytes behind them) the solver decides: no panic, no access outside the buffer (CBMC pointer checks on the unsafe reads), Ok exactly when an independent reference accepts, exact consumption, strict bool / UTF-8 / range / duplicate-key rejection, reservation requests bounded by the bytes present, and every ErrorKind variant renders. Three genuine defects were found this way, repaired by fix: commits and are now guarded.",
  note="Trusted: Kani/CBMC model; the monitoring stub substituted for Vec::try_reserve_exact in the K11-announce family only (native replay uses a counting allocator instead); hand-written UTF-8 validator for <= 3 bytes. Not covered: wall-clock time (only reservation sizes and loop bounds), inputs longer than the bounds, HashMap decoding, the generator-reply types of the slicec binary.",
  ref="DESIGN.md section 3, C11"),
 "C12": dict(
  text="One arbitrary operation from an ARBITRARY state satisfying the representation invariant (private fields set directly by an in-crate harness), plus all histories of 3 (quick) / 4 (thorough) operations from a fresh target, in lock-step with an append-only-log model: contents, position/length, reservations (valid or forged), guard bytes, failed operations change nothing; growable target incl. reallocation and zeroed reservations; input source never yields bytes outside the buffer and peeks do not consume. CBMC's pointer checks cover every get_unchecked / copy_nonoverlapping / set_len. The inductive step extends the bounded histories to histories of any length for capacities <= 4.",
  note="Trusted: Kani/CBMC model incl. realloc; allocation failure outside the model; capacities <= 4 (fixed) / initial capacity <= 3 (growable), k <= 3. Not covered: 4 KiB-size histories, bytes/tokio targets.",
  ref="DESIGN.md section 3, C12"),
}
NA = {}
def main():
    props = [json.loads(l)["id"] for l in open(os.path.join(V, "properties.jsonl"))]
    na_path = os.path.join(V, "tools", "not_applicable.json")
    na = json.load(open(na_path))
    checks = []
    for p in props:
        if p in CLAIMS:
            c = CLAIMS[p]
            checks.append(dict(property_id=p, quick_cmd=f"python3 vf.py check {p} --tier quick", thorough_cmd=f"python3 vf.py check {p} --tier thorough",
                               evidence_file=f"evidence/{p}.json", replay_cmd_template="python3 vf.py replay {path}", engine="kani-cbmc",
                               level_claimed=dict(category="model_checking", text=c["text"], design_ref=c["ref"]), level_note=c["note"], technique=c.get("tech", TECH)))
    m = dict(version=1, setup_cmd="python3 vf.py setup",
             hooks=dict(guard="kani", enable="nothing is committed to /repo for instrumentation: every check copies /repo's working tree to a scratch directory and appends `#[cfg(kani)] #[path=...] mod verif_*;` to the copies of the target files; cargo kani sets cfg(kani)",
                        baseline_off_cmd="cd /repo && cargo test --workspace --no-fail-fast --offline", source_commits=[], add_only=True),
             engines=[dict(name="kani-cbmc", path="vf.py", serves_properties=sorted(CLAIMS), kind_free_text="Kani 0.68.0 proof harnesses (harness/**.rs) compiled together with the real crate sources and decided by CBMC 6.11.0 with CaDiCaL; runner vf.py")],
             checks=checks,
             notes="Genuine defects repaired in /repo by unguarded fix: commits are listed in known_findings.json ('fixed' entries suppress nothing). Exit 2 from a check means inconclusive (timeout / memory / bound too small / counterexample that does not replay), never a violation.",
             not_applicable=[dict(property_id=p, reason=na[p]) for p in props if p not in CLAIMS])
    json.dump(m, open(os.path.join(V, "MANIFEST.json"), "w"), indent=1)
    missing = [p for p in props if p not in CLAIMS and p not in na]
    assert not missing, missing
if __name__ == "__main__":
    main()
