#!/usr/bin/env python3
"""Regenerates /verif/MANIFEST.json from the table below (claims) and the not-applicable reasons."""
import json, os
V = os.path.dirname(os.path.dirname(os.path.abspath(__file__)))
TECH = "bounded model checking of the real functions (Kani 0.68 harnesses over kani::any() inputs, decided by CBMC 6.11 + CaDiCaL; counterexamples replayed natively)"
CLAIMS = {
 "C10": dict(
  text="For every harness the SAT solver decides, for ALL values inside the stated bound, that the real Encoder/Decoder produce exactly the bytes of an independent bit-level reference of the wire format and round-trip: full 2^8..2^64 value domains for every fixed-width type, float bit pattern, varint/varuint/size (all width thresholds, refusal outside 62 bits with nothing written), every valid UTF-8 string of 0..3 bytes, small sequences (incl. nesting depth 2) and BTreeMap dictionaries. Exhaustive in value, bounded in size; sizes beyond the bound are outside the claim.",
  note="Trusted: Kani/CBMC's model of Rust and of the allocator (never fails); the reference encodings written in the harnesses from the property text; instantiations Encoder<SliceOutputTarget> / Decoder<SliceInputSource> only (VecOutputTarget separately under C12). Not covered: strings > 3 bytes, collections > 3 elements, depth 3, HashMap round trip, tokio feature.",
  ref="DESIGN.md section 3, C10"),
 "C11": dict(
  text="For EVERY byte string inside the stated bounds (9 arbitrary bytes for each primitive / varint target type; strings, sequences, BTreeMap dictionaries and skip_tagged_fields with concrete announced counts and arbitrary content; announced sizes up to 2^62-1 with too few bytes behind them) the solver decides: no panic, no access outside the buffer (CBMC pointer checks on the unsafe reads), Ok exactly when an independent reference accepts, exact consumption, strict bool / UTF-8 / range / duplicate-key rejection, reservation requests bounded by the bytes present, and every ErrorKind variant renders. Three genuine defects were found this way, repaired by fix: commits and are now guarded.",
  note="Trusted: Kani/CBMC model; the monitoring stub substituted for Vec::try_reserve_exact in the K11-announce family only (native replay uses a counting allocator instead); hand-written UTF-8 validator for <= 3 bytes. Not covered: wall-clock time (only reservation sizes and loop bounds), inputs longer than the bounds, HashMap decoding, the generator-reply types of the slicec binary.",
  ref="DESIGN.md section 3, C11"),
 "C12": dict(
  text="One arbitrary operation from an ARBITRARY state satisfying the representation invariant (private fields set directly by an in-crate harness), plus all histories of 3 (quick) / 4 (thorough) operations from a fresh target, in lock-step with an append-only-log model: contents, position/length, reservations (valid or forged), guard bytes, failed operations change nothing; growable target incl. reallocation and zeroed reservations; input source never yields bytes outside the buffer and peeks do not consume. CBMC's pointer checks cover every get_unchecked / copy_nonoverlapping / set_len. The inductive step extends the bounded histories to histories of any length for capacities <= 4.",
  note="Trusted: Kani/CBMC model incl. realloc; allocation failure outside the model; capacities <= 4 (fixed) / initial capacity <= 3 (growable), k <= 3. Not covered: 4 KiB-size histories, bytes/tokio targets.",
  ref="DESIGN.md section 3, C12"),
}
CLAIMS.update({
 "C08": dict(
  text="Encoder half only. For every type of the Compiler schema (21 structs/enums reachable from SliceFile, plus Arguments) the solver decides, for all scalar values (every i32 tag incl. all varint widths, every u64 absolute value, every i32 discriminant, all flag combinations) and all string bytes inside a concrete small shape, that the bytes produced by the real hand-written EncodeInto impl in definition_types.rs equal - byte for byte and in length - the encoding that the Slice2 rules prescribe for the schema in slice/Compiler/*.slice. The reference encoder is GENERATED from the .slice files of /repo on every run, so a field order / missing marker / wrong discriminant / wrong integer encoding in the hand-written code, or a schema edit not followed by the code, is a counterexample. This shows the stream is decodable by an independent reader of the schema; it does NOT show that the stream says what the AST says.",
  note="Trusted: tools/gen_k08.py (schema parser + Slice2 rules, ~200 lines) and Kani/CBMC. Shapes are concrete (strings of 0/1 byte, sequences of 0/1 element, nesting <= 2); Symbol::BasicEnum and Symbol::TypeAlias could not be decided inside Symbol (their payload types are covered on their own). Outside the claim: slice_file_converter.rs (AST -> schema structs: anonymous-type ids, paths, doc-comment lookup) and encode_generate_code_request / spawn_plugin_process in main.rs - AST-graph and process code CBMC cannot reach here.",
  ref="DESIGN.md section 3 C08 and 6.3"),
 "C04": dict(
  text="Rule kernels only, each decided for all values of its symbolic inputs on hand-built AST elements of concrete shape: the numeric bounds table against the language rule for all 16 primitive kinds and its agreement with what the codec really encodes/decodes at every 64-bit boundary; the tag range for all i128 literals; enumerator range (0..2^31-1 without underlying type, all i128 values against each of the 12 integral kinds) through the public validate_enum; underlying type integral / non-optional, checked enums non-empty, compact enums neither backed nor unchecked (every flag combination, through validate_enum); no field list under an underlying type (even an empty one), compact enums/structs untagged, compact structs non-empty (validate_struct); tags only on optional members and tag uniqueness over 2-3 members in any order (validate_members); every stream placement over three parameters (validate_parameters); return tuples >= 2; dictionary key legality for every primitive kind and for enums (validate_dictionary). For each, the multiset of pushed diagnostic codes must equal what the rule says - both directions (violations diagnosed with the code that belongs to the rule, conforming input accepted with no diagnostic). Rules are entered through the validators' public per-element entry points wherever that was tractable, so moving logic between private helper functions does not raise an alarm and a rule that is no longer called is noticed.",
  note="Trusted: Kani/CBMC; std::fmt::format stubbed to an empty string (message text is not asserted), RandomState::new stubbed where an Ast is built; the injected cfg(kani) constructors Ast::verif_empty and Diagnostics::verif_with_capacity (scratch copy only). Boolean inputs are enumerated as concrete cases behind symbolic selectors and numeric inputs are symbolic; where a number is symbolic the shape guarantees at most one diagnostic (a data-dependent position in the diagnostics vector is a > 10 GB problem). compact_enums_cannot_contain_tags is called directly (through validate_enum it exceeds 24 GB). Outside the claim: application of the rules to whole programs (visitor, redefinition scan, attribute rules, operations/inheritance rules, struct dictionary keys, type-alias rule, the parser), i.e. that every element of a program actually reaches its rule.",
  ref="DESIGN.md section 3 C04 and 6.4"),
 "C02": dict(
  text="Three of the named mechanisms, as kernels: string-literal unescaping for every ASCII string of 2 (quick) / 3 (thorough) characters against a reference unescaper, and for a backslash followed by any 2-byte UTF-8 scalar; implicit enumerator numbering (written literal, else previous + 1 wrapping, else 0, the parser's carried value, and the restart from 0 after construct_enum completes an enum) for all i128 previous/explicit values through the real construct_enumerator / construct_enum; tag literals for all i128 values. Nothing about layouts, the lexers, the LALRPOP grammar, attribute mode, source order or scopes.",
  note="Trusted: Kani/CBMC; RandomState::new and fmt::format stubs; Ast::verif_empty. Outside the claim: try_parse_integer (from_str_radix over a growing String), construct_enum's reset of the carried enumerator value, non-ASCII literals, everything that needs the lexer or the generated parser (2 symbolic characters through the Slice lexer are a 23 GB problem).",
  ref="DESIGN.md section 3 C02"),
 "C07": dict(
  text="Phase gating and exit-status arithmetic only: for two recorded diagnostics of every kind combination (error kinds and lint kinds, any order) CompilationState::apply / apply_unsafe run the phase function exactly when no error-KIND diagnostic is recorded and has_errors() says the same; for three diagnostics of every kind x level combination get_totals counts exactly the Error-level and Warning-level ones (Allowed nowhere), Diagnostics::extend loses nothing, and the error total is zero exactly when no error diagnostic exists.",
  note="Trusted: Kani/CBMC; RandomState::new stub; Ast::verif_empty. Outside the claim - and it is the deciding part of the property: main()'s `if !diagnostics.has_errors()` gate, the ignored --dry-run flag, compile_from_options' sequencing, generator start and file writing, into_updated's level rewrite.",
  ref="DESIGN.md section 3 C07"),
})
CLAIMS["C20"] = dict(
  text="A bounded CATALOGUE, not a quantification over programs: six harnesses run the real traversal code (every visit_with implementation: SliceFile, Module, Struct, Interface, Enum, Operation, CustomType, TypeAlias, Field, Parameter, Enumerator, and every arm of TypeRef::visit_with: unresolved, Sequence, Dictionary, Result, nested to depth 2) over small hand-built ASTs with a recording visitor; the solver decides, for every selector value (number of fields 0..2, return member present or not, enumerator with or without fields, module present or not, which anonymous type, optionality flags), that the recorded sequence of (callback kind, ADDRESS of the element) is exactly the prescribed one: container before contents, declaration order, parameters before return members, owner immediately followed by its type and then the nested types depth-first (key before value, success before failure), each element once, nothing else.",
  note="Trusted: Kani/CBMC. The ASTs are built by the harness (OwnedPtr/WeakPtr as the parser would), not parsed; shapes are concrete. Outside the claim: programs larger than the catalogue, nesting depth 3, aliases of anonymous types across files, and that the parser builds the containers the traversal relies on.",
  ref="DESIGN.md section 6.6")
NA = {}
def main():
    props = [json.loads(l)["id"] for l in open(os.path.join(V, "properties.jsonl"))]
    na_path = os.path.join(V, "tools", "not_applicable.json")
    na = json.load(open(na_path))
    checks = []
    for p in props:
        if p in CLAIMS:
            c = CLAIMS[p]
            checks.append(dict(property_id=p, quick_cmd=f"python3 vf.py check {p} --tier quick", thorough_cmd=f"python3 vf.py check {p} --tier thorough",
                               evidence_file=f"evidence/{p}.json", replay_cmd_template="python3 vf.py replay {path}", engine="kani-cbmc",
                               level_claimed=dict(category="model_checking", text=c["text"], design_ref=c["ref"]), level_note=c["note"], technique=c.get("tech", TECH)))
    m = dict(version=1, setup_cmd="python3 vf.py setup",
             hooks=dict(guard="kani", enable="nothing is committed to /repo for instrumentation: every check copies /repo's working tree to a scratch directory and appends `#[cfg(kani)] #[path=...] mod verif_*;` to the copies of the target files; cargo kani sets cfg(kani)",
                        baseline_off_cmd="cd /repo && cargo test --workspace --no-fail-fast --offline", source_commits=[], add_only=True),
             engines=[dict(name="kani-cbmc", path="vf.py", serves_properties=sorted(CLAIMS), kind_free_text="Kani 0.68.0 proof harnesses (harness/**.rs) compiled together with the real crate sources and decided by CBMC 6.11.0 with CaDiCaL; runner vf.py")],
             checks=checks,
             notes="Genuine defects repaired in /repo by unguarded fix: commits are listed in known_findings.json ('fixed' entries suppress nothing). Exit 2 from a check means inconclusive (timeout / memory / bound too small / counterexample that does not replay), never a violation.",
             not_applicable=[dict(property_id=p, reason=na[p]) for p in props if p not in CLAIMS])
    json.dump(m, open(os.path.join(V, "MANIFEST.json"), "w"), indent=1)
    missing = [p for p in props if p not in CLAIMS and p not in na]
    assert not missing, missing
if __name__ == "__main__":
    main()
