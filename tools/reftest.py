#!/usr/bin/env python3
"""reftest.py <refactoring dir with patch.diff/meta.json> <prop> [<prop> ...]
Applies a BEHAVIOUR-PRESERVING refactoring to /repo, runs the quick checks of the given properties, undoes it.
A check must not exit 1 (alarm) on such a change; 0 = still proved, 2 = inconclusive (e.g. harness no longer compiles)."""
import sys, os, subprocess, json, shutil, time
V = os.path.dirname(os.path.dirname(os.path.abspath(__file__)))
def sh(cmd, cwd=None, timeout=None):
    p = subprocess.run(cmd, shell=True, cwd=cwd, stdout=subprocess.PIPE, stderr=subprocess.STDOUT, text=True, timeout=timeout)
    return p.returncode, p.stdout
def main():
    seed = os.path.abspath(sys.argv[1]); props = sys.argv[2:]
    name = "REF-" + os.path.basename(seed.rstrip("/"))
    dst = os.path.join(V, "seeded", name); os.makedirs(dst, exist_ok=True)
    for f in ("patch.diff", "meta.json"):
        shutil.copy(os.path.join(seed, f), dst)
    meta = json.load(open(os.path.join(seed, "meta.json")))
    rc, o = sh("git status --porcelain", cwd="/repo"); assert o.strip() == "", o
    rc, o = sh(f"git apply {os.path.join(seed, 'patch.diff')}", cwd="/repo"); assert rc == 0, o
    res = {}
    try:
        for p in props:
            t0 = time.time()
            rc, o = sh(f"python3 vf.py check {p} --tier quick", cwd=V, timeout=7200)
            lines = [l for l in o.split("\n") if l.startswith("VIOLATION") or l.startswith("  failing check") or l.startswith("INCONCLUSIVE")]
            res[p] = dict(exit=rc, wall_s=round(time.time() - t0), lines=lines[:8])
            print(f"[{name}] {p}: exit={rc}" + (" FALSE ALARM" if rc == 1 else ""), flush=True)
            for l in lines[:4]:
                print("    " + l[:300], flush=True)
    finally:
        sh("git checkout -- .", cwd="/repo")
    json.dump(dict(meta, kind="behaviour-preserving refactoring: the checks must not exit 1", ran=res), open(os.path.join(dst, "meta.json"), "w"), indent=1)
if __name__ == "__main__":
    main()
