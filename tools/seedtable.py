#!/usr/bin/env python3
"""Prints the markdown table of DESIGN.md 6.5 from /verif/seeded/*/meta.json."""
import json, glob, os
V = os.path.dirname(os.path.dirname(os.path.abspath(__file__)))
rows = []
for m in sorted(glob.glob(os.path.join(V, "seeded", "*", "meta.json"))):
    d = json.load(open(m))
    name = os.path.basename(os.path.dirname(m))
    ran = d.get("ran", {})
    chk = ran.get("check", {})
    hs = sorted({l.split("failing check in ")[1].split(":")[0] for l in chk.get("lines", []) if "failing check in " in l})
    verdict = "**caught**" if chk.get("exit") == 1 else ("inconclusive (exit 2)" if chk.get("exit") == 2 else "missed")
    summ = d.get("summary", "").replace("|", "/").replace("\n", " ")
    if len(summ) > 230:
        summ = summ[:227] + "..."
    rows.append(f"| {name} | {', '.join(d.get('files', []))[:70]} | {summ} | {verdict} | {', '.join(hs)[:120]} |")
print("| seed | file | change | result | failing harnesses |\n|---|---|---|---|---|")
print("\n".join(rows))
