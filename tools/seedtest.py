#!/usr/bin/env python3
"""seedtest.py <property> <seed dir with patch.diff/meta.json/demo*> <worktree> [--tier quick|thorough] [--only h ...] [--skip-confirm]

1. confirms the seeded change in the scratch worktree (applies, builds, runs the repository test-suite, runs the demo
   with and without the change) unless --skip-confirm;
2. applies it to /repo, runs the property's check, undoes it (git checkout -- .), and
3. stores patch, demo, meta and the outcome under /verif/seeded/<property>-<name>/.
"""
import sys, os, subprocess, json, shutil, re, time

V = os.path.dirname(os.path.dirname(os.path.abspath(__file__)))


def sh(cmd, cwd=None, env=None, timeout=None):
    p = subprocess.run(cmd, shell=True, cwd=cwd, env=env, stdout=subprocess.PIPE, stderr=subprocess.STDOUT, text=True, timeout=timeout)
    return p.returncode, p.stdout


def main():
    prop, seed, wt = sys.argv[1], os.path.abspath(sys.argv[2]), sys.argv[3]
    tier = sys.argv[sys.argv.index("--tier") + 1] if "--tier" in sys.argv else "quick"
    only = [sys.argv[i + 1] for i, a in enumerate(sys.argv) if a == "--only"]
    name = sys.argv[sys.argv.index("--name") + 1] if "--name" in sys.argv else os.path.basename(seed.rstrip("/"))
    dst = os.path.join(V, "seeded", f"{prop}-{name}")
    os.makedirs(dst, exist_ok=True)
    prev0 = {}
    if os.path.exists(os.path.join(dst, "meta.json")):
        try:
            prev0 = json.load(open(os.path.join(dst, "meta.json"))).get("ran", {})
        except Exception:
            prev0 = {}
    for f in os.listdir(seed):
        if os.path.isfile(os.path.join(seed, f)):
            shutil.copy(os.path.join(seed, f), dst)
    meta = json.load(open(os.path.join(seed, "meta.json")))
    prev = {}
    if os.path.exists(os.path.join(dst, "meta.json")):
        try:
            prev = json.load(open(os.path.join(dst, "meta.json"))).get("ran", {})
        except Exception:
            prev = {}
    patch = os.path.join(seed, "patch.diff")
    env = dict(os.environ, CARGO_NET_OFFLINE="true", CARGO_TARGET_DIR=os.path.join(wt, "target"))
    ran = {k: v for k, v in prev0.items() if k != "check"} if "--skip-confirm" in sys.argv else {}
    if "--skip-confirm" not in sys.argv:
        sh("git checkout -- .", cwd=wt)
        rc, o = sh(f"git apply {patch}", cwd=wt)
        assert rc == 0, o
        rc, o = sh("cargo test --workspace --no-fail-fast --offline 2>&1 | grep -E '^test result|error(\\[|:)' ", cwd=wt, env=env, timeout=1800)
        tot = [re.findall(r"(\d+) passed; (\d+) failed", l) for l in o.split("\n") if l.startswith("test result")]
        passed = sum(int(t[0][0]) for t in tot if t)
        failed = sum(int(t[0][1]) for t in tot if t)
        ran["suite_with_change"] = dict(passed=passed, failed=failed, build_errors=("error" in o and "test result" not in o))
        demo_cmd = meta.get("demo_cmd", "")
        rc1, o1 = sh(demo_cmd, cwd=wt, env=env, timeout=1800)
        ran["demo_with_change"] = dict(rc=rc1, tail=o1[-600:])
        sh("git checkout -- .", cwd=wt)
        rc2, o2 = sh(demo_cmd, cwd=wt, env=env, timeout=1800)
        ran["demo_without_change"] = dict(rc=rc2, tail=o2[-300:])
        sh("git checkout -- . ; git clean -fdq -- slice-codec/tests slicec/tests", cwd=wt)
        ran["confirmed"] = bool(failed == 0 and passed > 400 and rc1 != 0 and rc2 == 0)
        print(f"[{prop}-{name}] confirm: suite {passed} passed / {failed} failed; demo with change rc={rc1}, without rc={rc2} -> confirmed={ran['confirmed']}", flush=True)
    # run the check against /repo with the change applied (or, with --via-worktree, against the scratch worktree with the
    # change applied there: same runner, VERIF_REPO points at the worktree; used while /repo must stay untouched)
    via_wt = "--via-worktree" in sys.argv
    target = wt if via_wt else "/repo"
    if via_wt:
        sh("git checkout -- .", cwd=wt)
    rc, o = sh("git status --porcelain --untracked-files=no", cwd=target)
    assert o.strip() == "", target + " not clean: " + o
    rc, o = sh(f"git apply {patch}", cwd=target)
    assert rc == 0, o
    t0 = time.time()
    try:
        cmd = f"python3 vf.py check {prop} --tier {tier} " + " ".join(f"--only {h}" for h in only)
        # evidence of a run against a seeded tree must not replace the evidence of the unchanged tree
        cenv = dict(os.environ, VERIF_EVIDENCE=os.environ.get("VERIF_EVIDENCE", "/var/tmp/slicec-verif-seed-evidence"))
        if via_wt:
            cenv["VERIF_REPO"] = wt
        rc, o = sh(cmd, cwd=V, timeout=7200, env=cenv)
    finally:
        sh("git checkout -- .", cwd=target)
    viol = [l for l in o.split("\n") if l.startswith("VIOLATION") or l.startswith("  failing check") or l.startswith("INCONCLUSIVE")]
    ran["check"] = dict(cmd=cmd, exit=rc, wall_s=round(time.time() - t0), lines=viol[:12], detected=(rc == 1))
    print(f"[{prop}-{name}] check exit={rc} detected={rc == 1}", flush=True)
    for l in viol[:8]:
        print("    " + l[:260], flush=True)
    meta_out = dict(meta, property=prop, seed=name, ran=ran)
    json.dump(meta_out, open(os.path.join(dst, "meta.json"), "w"), indent=1)


if __name__ == "__main__":
    main()
