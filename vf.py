#!/usr/bin/env python3
"""vf.py - runner for the solver-based (Kani/CBMC) checks of icerpc/slicec.  See DESIGN.md section 2.

  vf.py setup                       build the registry dependencies once into /verif/.cache/kani/<group>
  vf.py check <Cxx> [--tier quick|thorough] [--only <harness-substring>] [--jobs N]
  vf.py list [<Cxx>]                harnesses known, with tier and family
  vf.py replay <path>               re-run a stored counterexample against the current /repo

Exit status of `check`: 0 = every harness proved all its checks and reached all its witnesses (or the
only failures are listed in known_findings.json); 1 = a failing check reproduced natively and is not
listed (prints `VIOLATION property=<id> replay=<path>`); 2 = inconclusive (timeout, out of memory,
unwinding bound too small, unsatisfied witness, harness does not compile, counterexample that does
not replay).  Python 3 standard library only.
"""
import sys, os, re, json, time, shutil, subprocess, fcntl, hashlib, argparse, glob

VERIF = os.path.dirname(os.path.abspath(__file__))
REPO = os.environ.get("VERIF_REPO", "/repo")
HARNESS_DIR = os.path.join(VERIF, "harness")
CACHE = os.environ.get("VERIF_CACHE") or os.path.join(VERIF, ".cache", "kani")
SCRATCH_ROOT = os.environ.get("VERIF_SCRATCH", "/var/tmp")
SHIM_DIR = os.path.join(VERIF, "tools", "shim")
KNOWN = os.path.join(VERIF, "known_findings.json")

# One `cargo kani` invocation per group: same package, same cargo target, same global flags.
GROUPS = {
    "codec": dict(pkg="slice-codec", target=["--lib"], flags=[]),
    "slib": dict(pkg="slicec", target=["--lib"], flags=["--no-memory-safety-checks", "--no-undefined-function-checks"]),
    "sbin": dict(pkg="slicec", target=["--bin", "slicec"], flags=[]),
    # slicec lib again, for the harnesses that need the injected Diagnostics::verif_with_capacity (inject_diag_capacity.rs):
    # a change of Diagnostics' representation then breaks only this group's build, not every slicec-lib check
    "slibx": dict(pkg="slicec", target=["--lib"], flags=["--no-memory-safety-checks", "--no-undefined-function-checks"]),
}
ENV_BASE = dict(os.environ, CARGO_NET_OFFLINE="true", CARGO_TERM_COLOR="never")


def log(*a):
    print(*a, flush=True)


# --------------------------------------------------------------------------------------------------
# harness discovery: annotations in the harness sources are the single registry
# --------------------------------------------------------------------------------------------------
class Harness:
    def __init__(self, file, fn, meta, fmeta):
        self.file, self.fn, self.meta = file, fn, meta
        self.group = fmeta["group"]
        self.target = fmeta["target"]
        self.stem = os.path.splitext(os.path.basename(file))[0]
        self.props = meta.get("prop", "").split()
        self.tier = meta.get("tier", "quick")
        self.timeout = int(meta.get("timeout", "600"))
        self.family = meta.get("family", fn)

    @property
    def modpath(self):
        p = self.target.split("/src/", 1)[1]
        p = re.sub(r"\.rs$", "", p)
        parts = [x for x in p.split("/")]
        if parts[-1] in ("mod", "lib", "main"):
            parts = parts[:-1]
        return "::".join(parts + ["verif_" + self.stem])

    @property
    def pretty(self):
        return self.modpath + "::" + self.fn


def discover():
    out = []
    for path in sorted(glob.glob(os.path.join(HARNESS_DIR, "**", "*.rs"), recursive=True)):
        if os.path.basename(path).startswith("inject_"):
            continue
        fmeta, meta = {}, {}
        lines = open(path).read().split("\n")
        pending_proof = False
        for ln in lines:
            m = re.match(r"\s*//@@\s*(\w+):\s*(.*)$", ln)
            if m:
                fmeta[m.group(1)] = m.group(2).strip()
                continue
            m = re.match(r"\s*//@\s*(\w+):\s*(.*)$", ln)
            if m:
                k, v = m.group(1), m.group(2).strip()
                meta[k] = (meta[k] + " " + v) if k in meta and k in ("oracle", "inputs", "functions", "bound", "outside", "stubs") else v
                continue
            if re.match(r"\s*#\[kani::proof", ln):
                pending_proof = True
                continue
            m = re.match(r"\s*(?:pub\s+)?fn\s+(\w+)\s*\(", ln)
            if m and pending_proof:
                if "group" not in fmeta or "target" not in fmeta:
                    raise SystemExit(f"{path}: missing //@@ group/target header")
                out.append(Harness(path, m.group(1), meta, fmeta))
                meta, pending_proof = {}, False
    names = [h.fn for h in out]
    dup = {n for n in names if names.count(n) > 1}
    if dup:
        raise SystemExit(f"duplicate harness names: {dup}")
    return out


# --------------------------------------------------------------------------------------------------
# overlay: scratch copy of /repo's working tree + harness modules appended to the copies
# --------------------------------------------------------------------------------------------------
class Overlay:
    """Scratch copy at a fixed per-(group,slot) path (keeps cargo's incremental state valid), guarded
    by a lock file so two concurrent checks never share one."""

    def __init__(self, group):
        self.group = group
        os.makedirs(os.path.join(SCRATCH_ROOT, "slicec-verif"), exist_ok=True)
        self.lockf = None
        for slot in range(16):
            p = os.path.join(SCRATCH_ROOT, "slicec-verif", f"{group}-{slot}")
            f = open(p + ".lock", "w")
            try:
                fcntl.flock(f, fcntl.LOCK_EX | fcntl.LOCK_NB)
            except OSError:
                f.close()
                continue
            self.lockf, self.path, self.slot = f, p, slot
            break
        if self.lockf is None:
            raise SystemExit("no free scratch slot")
        self.side = self.path + ".side"

    def build(self, harness_files):
        shutil.rmtree(self.path, ignore_errors=True)
        shutil.rmtree(self.side, ignore_errors=True)
        try:
            os.unlink(os.path.join(self.side + ".td", "kani"))
        except OSError:
            pass
        shutil.rmtree(self.side + ".td", ignore_errors=True)
        os.makedirs(self.side)
        subprocess.check_call(["rsync", "-a", "--delete", "--exclude", "/target", "--exclude", "/.git", REPO + "/", self.path + "/"])
        # harness files are copied into the scratch tree too, so a playback test can be appended to the copy
        hdir = os.path.join(self.path, ".verif_h")
        os.makedirs(hdir, exist_ok=True)
        per_target = {}
        for hf, target in harness_files:
            per_target.setdefault(target, []).append(hf)
        for target, files in per_target.items():
            tpath = os.path.join(self.path, target)
            if not os.path.exists(tpath):
                raise Inconclusive(f"target source file {target} no longer exists in /repo")
            add = "\n"
            for hf in files:
                stem = os.path.splitext(os.path.basename(hf))[0]
                dst = os.path.join(hdir, os.path.basename(hf))
                shutil.copy(hf, dst)
                add += f'#[cfg(kani)]\n#[path = "{dst}"]\nmod verif_{stem};\n'
            with open(tpath, "a") as f:
                f.write(add)
        # verbatim, cfg(kani)-guarded additions to other files of the scratch copy (harness/**/inject_*.rs)
        for inj in sorted(glob.glob(os.path.join(HARNESS_DIR, "**", "inject_*.rs"), recursive=True)):
            txt = open(inj).read()
            g = re.search(r"//@@\s*groups:\s*(.*)", txt)
            t = re.search(r"//@@\s*append_to:\s*(\S+)", txt)
            if g and t and self.group in g.group(1).split():
                tp = os.path.join(self.path, t.group(1))
                if not os.path.exists(tp):
                    raise Inconclusive(f"file {t.group(1)} no longer exists in /repo")
                with open(tp, "a") as f:
                    f.write("\n" + txt)
        # generated companions (//@@ generate: <script> <output name> [args]): derived from the scratch copy of the repository on every run
        for hf, target in harness_files:
            for ln in open(hf):
                m = re.match(r"\s*//@@\s*generate:\s*(\S+)\s+(\S+)\s*(.*)$", ln)
                if m:
                    import shlex
                    cmd = [sys.executable, os.path.join(VERIF, m.group(1)), self.path, os.path.join(hdir, m.group(2))] + shlex.split(m.group(3))
                    p = subprocess.run(cmd, stdout=subprocess.PIPE, stderr=subprocess.STDOUT, text=True)
                    if p.returncode != 0:
                        raise Inconclusive(f"generator {m.group(1)} failed: {p.stdout.strip()[-600:]}")
        # crate-level attributes a harness file asks for (//@@ crate_attr: ...), under cfg(kani) only, at the top of the crate root
        roots = {}
        for hf, target in harness_files:
            for ln in open(hf):
                m = re.match(r"\s*//@@\s*crate_attr:\s*(.*)$", ln)
                if m:
                    pkg = target.split("/src/")[0]
                    root = "main.rs" if self.group == "sbin" else "lib.rs"
                    roots.setdefault(os.path.join(self.path, pkg, "src", root), set()).add(m.group(1).strip())
        for rp, attrs in roots.items():
            body = open(rp).read()
            with open(rp, "w") as f:
                f.write("".join(f"#![cfg_attr(kani, {a})]\n" for a in sorted(attrs)) + body)

    def close(self):
        if os.environ.get("VERIF_KEEP"):
            keep = os.path.join(SCRATCH_ROOT, "slicec-verif", "kept-" + self.group)
            shutil.rmtree(keep, ignore_errors=True)
            shutil.move(self.side, keep)
        shutil.rmtree(self.path, ignore_errors=True)
        shutil.rmtree(self.side, ignore_errors=True)
        try:
            os.unlink(os.path.join(self.side + ".td", "kani"))
        except OSError:
            pass
        shutil.rmtree(self.side + ".td", ignore_errors=True)
        try:
            os.unlink(self.path + ".lock")
        except OSError:
            pass
        if self.lockf:
            self.lockf.close()


class Inconclusive(Exception):
    pass


# --------------------------------------------------------------------------------------------------
# running kani
# --------------------------------------------------------------------------------------------------
def target_dir(group):
    return os.path.join(CACHE, group)


def kani_home():
    c = sorted(glob.glob(os.path.expanduser("~/.kani/kani-*/bin/kani-driver")))
    return os.path.dirname(os.path.dirname(c[-1])) if c else None


def run_target_dir(group, side):
    """Per-invocation target directory: `<side>.td/kani` is a symlink to the group's persistent build cache (cargo locks
    the real directory), while Kani's `result_output_dir` lands in the per-invocation directory - two checks of the same
    group running at the same time can then never see or remove each other's result files."""
    real = os.path.join(target_dir(group), "kani")
    os.makedirs(real, exist_ok=True)
    td = side + ".td"
    os.makedirs(td, exist_ok=True)
    link = os.path.join(td, "kani")
    if not os.path.islink(link):
        os.symlink(real, link)
    return td


def kani_cmd(group, extra, side=None):
    g = GROUPS[group]
    td = run_target_dir(group, side) if side else target_dir(group)
    return ["cargo-kani", "kani"] + g["target"] + ["--target-dir", td, "-Z", "stubbing", "-Z", "unstable-options"] + g["flags"] + extra


def kani_env(side, mem_kb, timeout):
    """kani-driver is started directly (as the `cargo-kani` proxy would, which only prepends Kani's bin directory to PATH) so that
    the cbmc shim in tools/shim comes first on PATH."""
    kh = kani_home()
    return dict(ENV_BASE, PATH=SHIM_DIR + ":" + kh + "/bin:" + ENV_BASE["PATH"], VERIF_SIDE_DIR=side, VERIF_CBMC_MEM_KB=str(mem_kb),
                VERIF_CBMC_TIMEOUT=str(timeout), VERIF_REAL_CBMC=kh + "/bin/cbmc")


def kani_exe():
    return kani_home() + "/bin/kani-driver"


def run_group(ov, group, harnesses, jobs, mem_kb, tier):
    """One cargo-kani invocation for all selected harnesses of a group. Returns {fn: result dict}."""
    g = GROUPS[group]
    pkgdir = os.path.join(ov.path, g["pkg"])
    td = run_target_dir(group, ov.side)
    resdir = os.path.join(td, "result_output_dir")
    for h in harnesses:
        try:
            os.unlink(os.path.join(resdir, h.pretty))
        except OSError:
            pass
    export = os.path.join(ov.side, "export.json")
    max_to = max(h.timeout for h in harnesses)
    cmd = kani_cmd(group, ["-j", str(jobs), "--output-format", "terse", "--output-into-files", "--export-json", export,
                           "--harness-timeout", f"{max_to}s", "--exact"], ov.side)
    for h in harnesses:
        cmd += ["--harness", h.pretty]
    env = kani_env(ov.side, mem_kb, max_to)
    t0 = time.time()
    logp = os.path.join(ov.side, "kani.log")
    with open(logp, "w") as lf:
        rc = subprocess.call(cmd, executable=kani_exe(), cwd=pkgdir, env=env, stdout=lf, stderr=subprocess.STDOUT)
    wall = time.time() - t0
    text = open(logp, errors="replace").read()
    results = {}
    compiled = "Checking harness" in text or os.path.exists(export)
    if not compiled:
        # compile error (harness no longer fits the code) or no harness matched
        lines = text.split("\n")
        tail = "\n".join([l + " @ " + (lines[i + 1].strip() if i + 1 < len(lines) else "") for i, l in enumerate(lines)
                          if re.search(r"^error|Failed to match|could not compile", l)][:12])
        for h in harnesses:
            results[h.fn] = dict(status="inconclusive", reason="build failed: " + tail[:2000], checks=[], covers=[])
        return results, wall, text
    outdir = None
    try:
        ex = json.load(open(export))
        outdir = ex["project"]["output_dir"]
    except Exception:
        ex = None
    for h in harnesses:
        results[h.fn] = parse_result(h, os.path.join(resdir, h.pretty), ov.side, text)
    # drop this run's goto binaries (tens of MB per harness); dependencies stay cached
    if outdir and os.path.isdir(outdir) and "/build/" in outdir:
        shutil.rmtree(os.path.dirname(outdir), ignore_errors=True)
    return results, wall, text


CHECK_RE = re.compile(r"^Check (\d+): ([^\n]+)\n\t - Status: (\w+)\n\t - Description: \"(.*?)\"\n(?:\t - Location: ([^\n]*)\n)?", re.M | re.S)


def parse_result(h, path, side, fulltext):
    r = dict(status="inconclusive", reason="", checks_total=0, checks_failed=0, failed=[], covers=[], stats={})
    # statistics recorded by the cbmc shim
    st = {}
    for sp in glob.glob(os.path.join(side, "*.stats")):
        if sp.endswith(mangled_suffix(h) + ".out.stats"):
            txt = open(sp, errors="replace").read()
            m = re.search(r"size of program expression: (\d+) steps", txt)
            if m:
                st["program_steps"] = int(m.group(1))
            m = re.search(r"Generated (\d+) VCC\(s\), (\d+) remaining", txt)
            if m:
                st["vccs"], st["vccs_after_simplification"] = int(m.group(1)), int(m.group(2))
            m = re.search(r"Runtime Symex: ([0-9.e+-]+)s", txt)
            if m:
                st["symex_s"] = round(float(m.group(1)), 3)
            st["solver_s"] = round(sum(float(x) for x in re.findall(r"Runtime Solver: ([0-9.e+-]+)s", txt)), 3)
            st["solver_calls"] = len(re.findall(r"Runtime Solver:", txt))
            m = re.findall(r"(\d+) variables, (\d+) clauses", txt)
            if m:
                st["cnf_variables"], st["cnf_clauses"] = int(m[-1][0]), int(m[-1][1])
            if "Out of memory" in txt or "bad_alloc" in txt:
                st["oom"] = True
            try:
                for ln in open(sp + ".time"):
                    k, _, v = ln.strip().partition("=")
                    if k == "peak_rss_kb":
                        st["peak_rss_mb"] = int(v) // 1024
                    elif k == "wall_s":
                        st["cbmc_wall_s"] = round(float(v), 2)
                    elif k == "exit":
                        st["cbmc_exit"] = int(v)
            except OSError:
                pass
    r["stats"] = st
    if not os.path.exists(path):
        why = "no result file"
        if st.get("cbmc_exit") == 137:
            why = "CBMC killed (time limit)"
        elif st.get("oom") or st.get("cbmc_exit") in (134, 139, 6):
            why = "CBMC out of memory / aborted"
        r["reason"] = why
        return r
    txt = open(path, errors="replace").read()
    checks = CHECK_RE.findall(txt)
    r["checks_total"] = len(checks)
    failed, covers, undet = [], [], 0
    for num, name, status, desc, loc in checks:
        is_cover = ".cover." in name
        if is_cover:
            covers.append(dict(name=name, status=status, desc=desc, loc=short_loc(loc)))
            continue
        if status == "FAILURE":
            failed.append(dict(name=name, desc=desc, loc=short_loc(loc), func=loc.split(" in function ")[-1] if loc else ""))
        elif status in ("UNDETERMINED", "ERROR"):
            undet += 1
    r["covers"], r["failed"], r["checks_failed"], r["undetermined"] = covers, failed, len(failed), undet
    m = re.search(r"VERIFICATION:- (\w+)", txt)
    verdict = m.group(1) if m else None
    r["verdict"] = verdict
    m = re.search(r"Verification Time: ([0-9.]+)s", txt)
    if m:
        r["verification_time_s"] = round(float(m.group(1)), 2)
    if "CBMC timed out" in txt:
        r["reason"] = "CBMC timed out (harness time limit)"
        return r
    if "CBMC failed" in txt and not checks:
        r["reason"] = "CBMC failed without results (out of memory under the address-space cap, or crashed)"
        return r
    if verdict is None:
        r["reason"] = "no verdict (CBMC error / timeout / out of memory)"
        return r
    unwind_fail = [f for f in failed if ".unwind." in f["name"] or "unwinding assertion" in f["desc"]]
    unsupported = [f for f in failed if "unsupported_construct" in f["name"] or "is not currently supported by Kani" in f["desc"]]
    real = [f for f in failed if f not in unwind_fail and f not in unsupported]
    unsat_cov = [c for c in covers if c["status"] != "SATISFIED"]
    if unwind_fail:
        r["reason"] = "unwinding assertion failed: bound too small for " + unwind_fail[0]["loc"]
    elif unsupported:
        r["reason"] = "reached a construct Kani does not support: " + unsupported[0]["desc"][:200]
    elif real:
        r["status"] = "failed"
        r["real_failed"] = real
    elif undet:
        r["reason"] = f"{undet} checks undetermined / in error (solver out of memory under the address-space cap, or an earlier unwinding failure)"
    elif verdict != "SUCCESSFUL":
        r["reason"] = "verdict " + verdict + " without a failed check"
    elif unsat_cov:
        r["reason"] = "witness not reachable (possible vacuity): " + "; ".join(c["desc"] for c in unsat_cov[:4])
    else:
        r["status"] = "proved"
    return r


def mangled_suffix(h):
    # v0 mangling ends with <len><ident> for each path segment; the last two are the module and the fn
    mod = "verif_" + h.stem
    return f"{len(mod)}{mod}{len(h.fn)}{h.fn}"


def short_loc(loc):
    if not loc:
        return ""
    loc = re.sub(r"^(\.\./)+home/runner/\.rustup/toolchains/[^/]+/lib/rustlib/src/rust/library/", "std:", loc)
    loc = re.sub(r"(\S*/)?\.verif_h/", "harness:", loc)
    return loc


# --------------------------------------------------------------------------------------------------
# counterexample replay
# --------------------------------------------------------------------------------------------------
def concrete_playback(ov, h, mem_kb):
    """Re-run one failing harness with concrete playback; append the generated unit test to the scratch
    copy of the harness file; run it natively (dev profile, then release). Returns dict."""
    g = GROUPS[h.group]
    pkgdir = os.path.join(ov.path, g["pkg"])
    cmd = kani_cmd(h.group, ["-Z", "concrete-playback", "--concrete-playback=print", "--exact", "--harness", h.pretty,
                             "--harness-timeout", f"{h.timeout}s"], ov.side)
    env = kani_env(ov.side, mem_kb, h.timeout)
    p = subprocess.run(cmd, executable=kani_exe(), cwd=pkgdir, env=env, stdout=subprocess.PIPE, stderr=subprocess.STDOUT, text=True, errors="replace")
    out = p.stdout
    # Kani prints one unit test per failed check and per satisfied cover; only the failed checks are counterexamples
    blocks = re.findall(r"```\n(.*?#\[test\].*?)```", out, re.S)
    blocks = [b for b in blocks if not re.search(r"Check for `cover`", b)]
    if not blocks:
        # a harness without symbolic input has no values to play back: the native replay is the harness itself
        blocks = ["/// Synthetic playback for a harness whose failing path needs no symbolic value\n#[test]\nfn kani_concrete_playback_"
                  + h.fn + "_0() {\n    let concrete_vals: Vec<Vec<u8>> = vec![];\n    kani::concrete_playback_run(concrete_vals, " + h.fn + ");\n}\n"]
    seen, uniq = set(), []
    for b in blocks:
        nm = re.search(r"fn (kani_concrete_playback_\w+)", b)
        if nm and nm.group(1) not in seen:
            seen.add(nm.group(1))
            uniq.append(b)
    blocks = uniq[:4]
    test_src = "\n".join(blocks)
    tnames = re.findall(r"fn (kani_concrete_playback_\w+)", test_src)
    hcopy = os.path.join(ov.path, ".verif_h", os.path.basename(h.file))
    with open(hcopy, "a") as f:
        f.write(wrap_playback(h, test_src))
    # decoded concrete values of the first counterexample: each `vec![..]` line is one kani::any() call in program order
    vals = re.findall(r"//\s*(.+)\n\s*vec!\[([0-9, ]*)\]", blocks[0])
    res = dict(ok=True, test=test_src, test_names=tnames, checks=re.findall(r"Check for `(\w+)`: \"(.*?)\"", test_src),
               values=[dict(value=v.strip(), bytes=[int(x) for x in b.split(",") if x.strip()]) for v, b in vals])
    runs = {}
    # dev = the profile Kani models (debug assertions, overflow checks); "release-like" = the same test built with
    # optimisation and without debug assertions / overflow checks (cargo kani playback has no --release switch)
    rel = {"CARGO_PROFILE_TEST_OPT_LEVEL": "3", "CARGO_PROFILE_TEST_DEBUG_ASSERTIONS": "false", "CARGO_PROFILE_TEST_OVERFLOW_CHECKS": "false",
           "CARGO_PROFILE_DEV_OPT_LEVEL": "3", "CARGO_PROFILE_DEV_DEBUG_ASSERTIONS": "false", "CARGO_PROFILE_DEV_OVERFLOW_CHECKS": "false"}
    for prof, extra_env in (("dev", {}), ("release-like", rel)):
        env2 = dict(ENV_BASE, CARGO_TARGET_DIR=os.path.join(CACHE, "playback-" + h.group + "-" + prof), **extra_env)
        c = ["cargo", "kani", "playback", "-Z", "concrete-playback"] + g["target"] + ["--", "kani_concrete_playback_" + h.fn + "_"]
        pp = subprocess.run(c, cwd=pkgdir, env=env2, stdout=subprocess.PIPE, stderr=subprocess.STDOUT, text=True, errors="replace")
        o = pp.stdout
        ran = re.findall(r"test \S*(kani_concrete_playback_\w+) \.\.\. (\w+)", o)
        pm = re.findall(r"panicked at ([^\n]*)\n([^\n]*)", o)
        errs = "\n".join(l for l in o.split("\n") if l.startswith("error"))[:800]
        runs[prof] = dict(rc=pp.returncode, outcome=("FAILED" if any(x[1] == "FAILED" for x in ran) else ("ok" if ran else "not-run")),
                          tests={a: b for a, b in ran}, panics=[short_loc(a) + " | " + b for a, b in pm][:4],
                          tail=(errs + " ... " + o[-600:]) if not ran else "")
    res["native"] = runs
    res["reproduced"] = any(v["outcome"] == "FAILED" for v in runs.values())
    return res


def wrap_playback(h, test_src):
    """The generated unit test goes into its own child module of the harness module (slice-codec is no_std: vec!/Vec need importing)."""
    lib = "alloc" if h.group == "codec" else "std"
    return ("\n#[cfg(kani)]\nmod verif_playback_" + h.fn + " {\n    #![allow(unused_imports)]\n    use super::*;\n    use " + lib + "::{vec, vec::Vec};\n"
            + test_src + "\n}\n")


def load_known():
    if os.path.exists(KNOWN):
        return json.load(open(KNOWN))
    return {"findings": [], "fixed": []}


def match_known(known, prop, h, f):
    for k in known.get("findings", []):
        if k["property"] == prop and k["harness"] == h.fn and k["label"] in (f["desc"] + " @ " + f["func"]):
            return k
    return None


# --------------------------------------------------------------------------------------------------
# check
# --------------------------------------------------------------------------------------------------
def cmd_check(args):
    prop = args.property
    tier = args.tier or os.environ.get("VERIF_TIER") or "quick"
    seed = int(os.environ.get("VERIF_SEED", "0") or 0)
    t0 = time.time()
    allh = [h for h in discover() if prop in h.props]
    sel = [h for h in allh if tier == "thorough" or h.tier == "quick"]
    if args.only:
        sel = [h for h in sel if any(o in h.fn for o in args.only)]
    if not sel:
        raise SystemExit(f"no harness for {prop} in tier {tier}")
    # no sampling anywhere: the seed only rotates the order in which harnesses are handed to Kani
    sel = sel[seed % len(sel):] + sel[:seed % len(sel)]
    mem_kb = (12 if tier == "quick" else 24) * 1024 * 1024
    jobs = args.jobs or (8 if tier == "quick" else 6)
    known = load_known()
    results, walls, exit_code = {}, {}, 0
    lines = []
    violations, known_hits, inconclusive, unreplayed = [], [], [], []
    groups = sorted({h.group for h in sel})
    for gname in groups:
        hs = [h for h in sel if h.group == gname]
        ov = Overlay(gname)
        try:
            # all harness files of the group are attached (they must all compile); only the selected run
            files = sorted({(h.file, h.target) for h in discover() if h.group == gname})
            try:
                ov.build(files)
                res, wall, text = run_group(ov, gname, hs, jobs, mem_kb, tier)
            except Inconclusive as e:
                res = {h.fn: dict(status="inconclusive", reason=str(e), checks=[], covers=[]) for h in hs}
                wall = 0
            walls[gname] = wall
            for h in hs:
                r = res[h.fn]
                results[h.fn] = r
                if r["status"] == "failed" and violations and not os.environ.get("VERIF_REPLAY_ALL"):
                    # one natively reproduced violation already decides the exit status; further failing harnesses are
                    # listed with their failed checks but not replayed (each replay is a second CBMC run plus two test builds)
                    r["status"] = "failed-unreplayed"
                    unreplayed.append((h, r["real_failed"]))
                if r["status"] == "failed":
                    pb = concrete_playback(ov, h, mem_kb)
                    r["playback"] = {k: v for k, v in pb.items() if k != "test"}
                    rdir = os.path.join(VERIF, "replays", prop)
                    os.makedirs(rdir, exist_ok=True)
                    rpath = os.path.join(rdir, h.fn + ".json")
                    json.dump(dict(property=prop, harness=h.fn, pretty=h.pretty, group=h.group, file=os.path.relpath(h.file, VERIF),
                                   failed=r["real_failed"], playback_test=pb.get("test"), values=pb.get("values"), native=pb.get("native")),
                              open(rpath, "w"), indent=1)
                    r["replay_path"] = rpath
                    ub_only = all(is_ub_check(f) for f in r["real_failed"])
                    if not pb.get("ok") or not (pb.get("reproduced") or ub_only):
                        r["status"] = "inconclusive"
                        r["reason"] = "counterexample did not reproduce natively (encoding or stub suspected): " + str(pb.get("why") or pb.get("native"))[:600]
                    else:
                        if ub_only and not pb.get("reproduced"):
                            r["ub_note"] = "memory-safety check failed in CBMC; not observable by a native run, reported by class"
                        unlisted = []
                        for f in r["real_failed"]:
                            k = match_known(known, prop, h, f)
                            if k:
                                known_hits.append((k, h, f))
                            else:
                                unlisted.append(f)
                        if unlisted:
                            violations.append((h, unlisted, rpath))
                        else:
                            r["status"] = "known-finding"
                if r["status"] == "inconclusive":
                    inconclusive.append((h, r.get("reason", "")))
        finally:
            ov.close()
    wall = time.time() - t0
    # ---- report
    for h in sel:
        r = results[h.fn]
        st = r.get("stats", {})
        log(f"[{prop}] {h.fn:40s} {r['status']:13s} checks={r.get('checks_total', 0):5d} failed={r.get('checks_failed', 0)} "
            f"covers={sum(1 for c in r.get('covers', []) if c['status'] == 'SATISFIED')}/{len(r.get('covers', []))} "
            f"steps={st.get('program_steps', '-')} symex={st.get('symex_s', '-')}s solver={st.get('solver_s', '-')}s rss={st.get('peak_rss_mb', '-')}MB"
            + (f"  -- {r.get('reason', '')[:300]}" if r["status"] == "inconclusive" else ""))
    seen = set()
    for k, h, f in known_hits:
        key = (k["property"], k["harness"], k["label"])
        if key in seen:
            continue
        seen.add(key)
        log(f"KNOWN-FINDING: property={prop} {k['what']} [harness {h.fn}: {f['desc']} @ {f['func']}]")
    for h, fl, rpath in violations:
        for f in fl[:5]:
            log(f"  failing check in {h.fn}: \"{f['desc']}\" at {f['loc']}")
        log(f"VIOLATION property={prop} replay={rpath}")
    for h, fl in unreplayed:
        log(f"  also failing (not replayed, a violation is already reported): {h.fn}: \"{fl[0]['desc']}\" at {fl[0]['loc']}")
    for h, why in inconclusive:
        log(f"INCONCLUSIVE property={prop} harness={h.fn}: {why[:500]}")
    write_evidence(prop, tier, seed, sel, results, wall, len(violations), known_hits)
    if violations:
        return 1
    if inconclusive:
        return 2
    return 0


UB_PAT = re.compile(r"pointer_dereference|pointer_arithmetic|array_bounds|bounds|memcpy|memmove|NULL|deallocated|dead object|outside object bounds|invalid pointer|misaligned|free |double free", re.I)


def is_ub_check(f):
    return bool(UB_PAT.search(f["name"] + " " + f["desc"])) and "assertion failed" not in f["desc"]


def write_evidence(prop, tier, seed, sel, results, wall, nviol, known_hits):
    samples, evaluations, nontrivial, obligations, discharged = [], 0, 0, 0, 0
    solver_s = symex_s = 0.0
    stubs, outside, assumptions = set(), set(), set()
    for h in sel:
        r = results[h.fn]
        st = r.get("stats", {})
        evaluations += st.get("solver_calls", 0) or (1 if r["status"] in ("proved", "failed", "known-finding") else 0)
        cov = r.get("covers", [])
        ok_cov = sum(1 for c in cov if c["status"] == "SATISFIED")
        if r["status"] in ("proved", "known-finding") and ok_cov == len(cov):
            nontrivial += 1
        obligations += r.get("checks_total", 0)
        discharged += r.get("checks_total", 0) - r.get("checks_failed", 0) - r.get("undetermined", 0) if r.get("verdict") else 0
        solver_s += st.get("solver_s", 0) or 0
        symex_s += st.get("symex_s", 0) or 0
        s = dict(harness=h.pretty, family=h.family, verdict=r["status"], functions_encoded=h.meta.get("functions", ""),
                 instantiation=h.meta.get("inst", ""), symbolic_inputs=h.meta.get("inputs", ""), oracle=h.meta.get("oracle", ""),
                 bound=h.meta.get("bound", ""), checks=r.get("checks_total", 0), checks_failed=r.get("checks_failed", 0),
                 witnesses=f"{ok_cov}/{len(cov)} reachable", program_steps=st.get("program_steps"), vccs=st.get("vccs"),
                 symex_s=st.get("symex_s"), solver_s=st.get("solver_s"), solver_calls=st.get("solver_calls"), peak_rss_mb=st.get("peak_rss_mb"))
        if r["status"] == "inconclusive":
            s["reason"] = r.get("reason", "")[:400]
        if r.get("real_failed"):
            s["failed_checks"] = [dict(desc=f["desc"], at=f["loc"]) for f in r["real_failed"][:6]]
            s["counterexample"] = (r.get("playback") or {}).get("values")
            s["native_replay"] = (r.get("playback") or {}).get("native")
        samples.append(s)
        for k, dst in (("stubs", stubs), ("outside", outside), ("assume", assumptions)):
            if h.meta.get(k):
                dst.add(h.meta[k])
    ev = dict(
        property_id=prop, tier=tier, seed=seed, level="model_checking",
        coverage=dict(
            evaluations=evaluations, distinct_nontrivial=nontrivial,
            rule="one evaluation = one SAT query discharged by CBMC (CaDiCaL) for a harness; a harness counts as distinct and non-trivial "
                 "only if CBMC proved every generated check AND every kani::cover! witness in it was SATISFIED (so neither verdict of its oracle "
                 "is vacuous); harnesses are distinct by the function/instantiation/size they encode",
            samples=samples, obligations=obligations, discharged=discharged, exhaustive=False,
            harnesses_run=len(sel), harnesses_proved=sum(1 for h in sel if results[h.fn]["status"] == "proved"),
            solver="CBMC 6.11.0 + CaDiCaL via Kani 0.68.0", solver_time_s=round(solver_s, 2), symex_time_s=round(symex_s, 2),
            profile="dev (debug assertions and overflow checks on, as in cargo test); panic=abort",
            encoding="GOTO program regenerated by kani-compiler from a scratch copy of /repo's working tree on this run",
            outside_claim=sorted(outside), stubs=sorted(stubs),
            known_findings=[dict(harness=h.fn, label=k["label"], what=k["what"]) for k, h, f in known_hits],
            explanation="bounded model checking of the real functions; every verdict is 'for all inputs inside the stated bound'"),
        assumptions=sorted(assumptions | {"Kani's allocator never fails", "&str inputs are valid UTF-8 (type invariant)",
                                          "CBMC/Kani are sound for the Rust semantics they model"}),
        wall_s=round(wall, 2), violations=nviol)
    # VERIF_EVIDENCE redirects the evidence of experiments (seeded changes, probes on a scratch worktree) elsewhere;
    # the registered commands never set it, so evidence/ only ever describes runs against VERIF_REPO's default (/repo).
    evdir = os.environ.get("VERIF_EVIDENCE") or os.path.join(VERIF, "evidence")
    os.makedirs(evdir, exist_ok=True)
    json.dump(ev, open(os.path.join(evdir, prop + ".json"), "w"), indent=1)


def cmd_setup(args):
    """Compile the registry dependencies once per group (a trivial harness selection compiles everything)."""
    os.makedirs(CACHE, exist_ok=True)
    rc = 0
    for gname, g in GROUPS.items():
        ov = Overlay(gname)
        try:
            files = sorted({(h.file, h.target) for h in discover() if h.group == gname})
            if not files:
                continue
            ov.build(files)
            cmd = kani_cmd(gname, ["--only-codegen"], ov.side)
            t0 = time.time()
            p = subprocess.run(cmd, executable=kani_exe(), cwd=os.path.join(ov.path, g["pkg"]), env=kani_env(ov.side, 0, 0), stdout=subprocess.PIPE, stderr=subprocess.STDOUT, text=True)
            log(f"setup {gname}: rc={p.returncode} {time.time() - t0:.0f}s")
            if p.returncode != 0:
                log(p.stdout[-3000:])
                rc = 1
            prune_outputs(gname)
        finally:
            ov.close()
    return rc


def prune_outputs(group):
    base = os.path.join(target_dir(group), "kani")
    for d in glob.glob(os.path.join(base, "*", "debug", "build", "slice*")):
        shutil.rmtree(d, ignore_errors=True)


def cmd_list(args):
    for h in discover():
        if args.property and args.property not in h.props:
            continue
        log(f"{' '.join(h.props):8s} {h.tier:9s} {h.group:6s} {h.family:22s} {h.pretty}")


def cmd_replay(args):
    d = json.load(open(args.path))
    hs = [h for h in discover() if h.fn == d["harness"]]
    if not hs:
        raise SystemExit("harness no longer exists")
    h = hs[0]
    ov = Overlay(h.group)
    try:
        files = sorted({(x.file, x.target) for x in discover() if x.group == h.group})
        ov.build(files)
        hcopy = os.path.join(ov.path, ".verif_h", os.path.basename(h.file))
        with open(hcopy, "a") as f:
            f.write(wrap_playback(h, d["playback_test"]))
        tname = "kani_concrete_playback_" + h.fn + "_"
        g = GROUPS[h.group]
        env2 = dict(ENV_BASE, CARGO_TARGET_DIR=os.path.join(CACHE, "playback-" + h.group))
        p = subprocess.run(["cargo", "kani", "playback", "-Z", "concrete-playback"] + g["target"] + ["--", tname],
                           cwd=os.path.join(ov.path, g["pkg"]), env=env2, stdout=subprocess.PIPE, stderr=subprocess.STDOUT, text=True)
        log(p.stdout[-4000:])
        failed = re.search(r"test \S*" + tname + r"\w* \.\.\. FAILED", p.stdout) is not None
        log("REPRODUCED" if failed else "NOT REPRODUCED")
        return 1 if failed else 0
    finally:
        ov.close()


def main():
    ap = argparse.ArgumentParser()
    sp = ap.add_subparsers(dest="cmd", required=True)
    c = sp.add_parser("check")
    c.add_argument("property")
    c.add_argument("--tier", choices=["quick", "thorough"])
    c.add_argument("--only", action="append")
    c.add_argument("--jobs", type=int)
    sp.add_parser("setup")
    l = sp.add_parser("list")
    l.add_argument("property", nargs="?")
    r = sp.add_parser("replay")
    r.add_argument("path")
    args = ap.parse_args()
    rc = dict(check=cmd_check, setup=cmd_setup, list=cmd_list, replay=cmd_replay)[args.cmd](args)
    sys.exit(rc or 0)


if __name__ == "__main__":
    main()
